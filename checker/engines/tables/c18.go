// Package tables implements E5: finite tables located by resolved construct,
// read as constants and compared exhaustively with an oracle in the checker.
package tables

import (
	"fmt"
	"go/ast"
	"go/token"
	"go/types"
	"sort"
	"strings"

	"gtsverif/core"
)

// IUPAC base sets (bit 1=A 2=C 4=G 8=T) for upper-case letters; U reads as T.
var iupac = map[byte]int{
	'A': 1, 'C': 2, 'G': 4, 'T': 8, 'U': 8,
	'R': 1 | 4, 'Y': 2 | 8, 'K': 4 | 8, 'M': 1 | 2, 'S': 2 | 4, 'W': 1 | 8,
	'B': 2 | 4 | 8, 'D': 1 | 4 | 8, 'H': 1 | 2 | 8, 'V': 1 | 2 | 4, 'N': 15,
}

func compSet(s int) int {
	r := 0
	if s&1 != 0 {
		r |= 8
	}
	if s&8 != 0 {
		r |= 1
	}
	if s&2 != 0 {
		r |= 4
	}
	if s&4 != 0 {
		r |= 2
	}
	return r
}

// letterOf returns the canonical DNA letter for a base set (T, never U).
func letterOf(set int) byte {
	for _, c := range []byte("ACGTRYKMSWBDHVN") {
		if iupac[c] == set {
			return c
		}
	}
	return 0
}

func upper(b byte) byte {
	if 'a' <= b && b <= 'z' {
		return b - 32
	}
	return b
}
func isLower(b byte) bool { return 'a' <= b && b <= 'z' }

// oracleComplement is the IUPAC complement with case preserved; other bytes unchanged.
func oracleComplement(b byte, rna bool) byte {
	set, ok := iupac[upper(b)]
	if !ok {
		return b
	}
	c := letterOf(compSet(set))
	if rna && c == 'T' && upper(b) == 'A' {
		c = 'U'
	}
	if isLower(b) {
		c += 32
	}
	return c
}

func showByte(b byte) string {
	if b >= 33 && b < 127 {
		return string([]byte{b})
	}
	return fmt.Sprintf("0x%02x", b)
}

// C18 decides COMP, TRANS, LOOKUP, CLASSES, LITERAL and FOLD.
func C18(p *core.Prog, r *core.Report) {
	r.Rule("COMP", "the two alphabets handed to the byte-translation helper in gts.Complement have equal length and translate each of the 256 byte values to the IUPAC complement (case preserved, non-IUPAC bytes unchanged, U read back as A)", 33)
	r.Rule("TRANS", "gts.Transcribe's table is the complement table except A/a -> U/u, for all 256 byte values", 33)
	r.Rule("LOOKUP", "the translation helper allocates len(input) bytes and writes, for every index, either the input byte itself (lookup missed) or new[first index of the byte in old]", 3)
	r.Rule("WIRE", "the translated bytes are computed from the argument's Bytes() and are the bytes of the returned sequence", 2)
	r.Rule("CLASSES", "for each of the 16 IUPAC query letters the character class Match writes equals {x : bases(x) subset of bases(q)} over the lower-case alphabet incl. u", 16)
	r.Rule("LITERAL-HIGH", "a query byte written to the pattern as a one-byte literal is ASCII (a guard `c < 0x80` dominates the write): a byte of 0x80 or more is not valid UTF-8 on its own, the pattern does not compile, and the literal cannot match itself", 1)
	r.Rule("LITERAL", "every query-derived text that reaches the pattern outside a constant class passes through regexp.QuoteMeta, and the pattern is compiled with the error-returning constructor", 2)
	r.Rule("FOLD-BYTEWISE", "the case-folded copies that Search and Match look for hits in keep every byte at its index: each is a slice made as long as the residues and filled by one loop whose per-byte map, evaluated for all 256 byte values, is ASCII lower-casing ('A'..'Z' -> +32, every other byte itself); a rune-wise library fold (bytes.ToLower/ToUpper/Map, strings.*) changes the length for invalid UTF-8 and shifts every later offset", 4)
	r.Rule("FOLD", "both operands of Search and of Match are case-folded; all hits are requested (negative count); the result is sorted with sort.Sort(BySegment)", 8)
	r.NotDecided = append(r.NotDecided, "regexp leftmost-non-overlapping semantics", "suffix-array correctness (index/suffixarray is trusted)", "that BySegment's order is a strict weak order (decided under C09)")
	r.Assumptions = append(r.Assumptions, "bytes.IndexByte, bytes.ToLower, regexp, index/suffixarray, sort behave as documented")
	r.Exhaustive = true

	info := p.Info(core.PkgGts)
	compTable(p, r, info, "Complement", "COMP", false)
	compTable(p, r, info, "Transcribe", "TRANS", true)
	lookup(p, r, info)
	matchClasses(p, r, info)
	fold(p, r, info)
}

func findCallTo(info *types.Info, n ast.Node, id string) []*ast.CallExpr {
	var out []*ast.CallExpr
	for _, c := range core.Calls(n) {
		if core.IsCallTo(info, c, id) {
			out = append(out, c)
		}
	}
	return out
}

func compTable(p *core.Prog, r *core.Report, info *types.Info, fn, rule string, rna bool) {
	fd := p.FuncDecl(core.PkgGts, fn)
	if fd == nil || fd.Body == nil {
		r.Und(rule, "gts."+fn+"|anchor", "-", "anchor-unresolved: function gts."+fn+" not found")
		return
	}
	r.Fn("gts." + fn)
	calls := findCallTo(info, fd.Body, core.PkgGts+".replaceBytes")
	if len(calls) != 1 || len(calls[0].Args) != 3 {
		r.Und(rule, "gts."+fn+"|table", p.Pos(fd.Pos()), fmt.Sprintf("expected exactly one call of the translation helper gts.replaceBytes, found %d", len(calls)))
		return
	}
	call := calls[0]
	from, ok1 := p.BytesOfConst(info, call.Args[1])
	to, ok2 := p.BytesOfConst(info, call.Args[2])
	pos := p.Pos(call.Pos())
	if !ok1 || !ok2 {
		r.Und(rule, "gts."+fn+"|table", pos, "the alphabets passed to the translation helper are not constants")
		return
	}
	if len(from) != len(to) {
		r.Bad(rule, "gts."+fn+"|len", pos, fmt.Sprintf("alphabets differ in length (%d vs %d): the helper indexes the second with positions of the first", len(from), len(to)))
		return
	}
	r.Ok(rule, "gts."+fn+"|len", pos, fmt.Sprintf("both alphabets have %d bytes", len(from)))
	tr := func(b byte) byte {
		if j := strings.IndexByte(from, b); j >= 0 {
			return to[j]
		}
		return b
	}
	other := 0
	var otherBad []string
	for v := 0; v < 256; v++ {
		b := byte(v)
		want := oracleComplement(b, rna)
		got := tr(b)
		if _, isLetter := iupac[upper(b)]; isLetter {
			key := fmt.Sprintf("gts.%s|byte=%s", fn, showByte(b))
			if got != want {
				r.Bad(rule, key, pos, fmt.Sprintf("%s maps %q to %q; IUPAC says %q", fn, b, got, want))
			} else {
				r.Ok(rule, key, pos, fmt.Sprintf("%q -> %q", b, got))
			}
		} else {
			other++
			if got != want {
				otherBad = append(otherBad, showByte(b))
			}
		}
	}
	if len(otherBad) > 0 {
		for _, s := range otherBad {
			r.Bad(rule, fmt.Sprintf("gts.%s|byte=%s", fn, s), pos, "a byte outside the IUPAC alphabet is changed")
		}
	} else {
		r.Ok(rule, "gts."+fn+"|non-iupac", pos, fmt.Sprintf("all %d bytes outside the IUPAC alphabet map to themselves", other))
	}
	// duplicates in `from` are dead entries that hide a wrong pair.
	seen := map[byte]bool{}
	for i := 0; i < len(from); i++ {
		if seen[from[i]] {
			r.Bad(rule, fmt.Sprintf("gts.%s|dup=%s", fn, showByte(from[i])), pos, "letter listed twice in the source alphabet; the second pair is never used")
		}
		seen[from[i]] = true
	}

	// WIRE: arg0 is <param>.Bytes(); result reaches WithBytes' 2nd argument; that call is returned.
	asg := core.Assigns(info, fd.Body)
	a0 := core.Origin(info, asg, call.Args[0])
	okIn := false
	if c, ok := a0.(*ast.CallExpr); ok {
		if sel, ok := ast.Unparen(c.Fun).(*ast.SelectorExpr); ok && sel.Sel.Name == "Bytes" {
			if core.ParamIndex(info, fd, core.ObjOf(info, sel.X)) == 0 {
				okIn = true
			}
		}
	}
	okOut := false
	for _, wb := range findCallTo(info, fd.Body, core.PkgGts+".WithBytes") {
		if len(wb.Args) != 2 {
			continue
		}
		if core.Origin(info, asg, wb.Args[1]) == ast.Expr(call) {
			// returned?
			ast.Inspect(fd.Body, func(n ast.Node) bool {
				if rs, ok := n.(*ast.ReturnStmt); ok && len(rs.Results) == 1 {
					if core.Origin(info, asg, rs.Results[0]) == ast.Expr(wb) {
						okOut = true
					}
				}
				return true
			})
		}
	}
	key := "gts." + fn + "|wiring"
	if okIn && okOut {
		r.Ok("WIRE", key, pos, "helper input is the argument's Bytes(); its result is the 2nd argument of the returned WithBytes call")
	} else {
		r.Bad("WIRE", key, pos, fmt.Sprintf("translated bytes are not wired from the argument to the result (input from arg.Bytes(): %v, output returned via WithBytes: %v)", okIn, okOut))
	}
}

// lookup checks the translation helper's contract by roles.
func lookup(p *core.Prog, r *core.Report, info *types.Info) {
	const rule = "LOOKUP"
	fd := p.FuncDecl(core.PkgGts, "replaceBytes")
	if fd == nil || fd.Body == nil {
		r.Und(rule, "gts.replaceBytes|anchor", "-", "anchor-unresolved: gts.replaceBytes not found")
		return
	}
	r.Fn("gts.replaceBytes")
	pos := p.Pos(fd.Pos())
	asg := core.Assigns(info, fd.Body)
	// the returned variable
	var ret types.Object
	ast.Inspect(fd.Body, func(n ast.Node) bool {
		if rs, ok := n.(*ast.ReturnStmt); ok && len(rs.Results) == 1 {
			ret = core.ObjOf(info, rs.Results[0])
		}
		return true
	})
	if ret == nil || len(asg[ret]) != 1 || asg[ret][0].RHS == nil {
		r.Und(rule, "gts.replaceBytes|alloc", pos, "result is not a single locally allocated slice")
		return
	}
	mk, ok := ast.Unparen(asg[ret][0].RHS).(*ast.CallExpr)
	if !ok || !core.IsBuiltin(info, mk, "make") || len(mk.Args) != 2 {
		r.Und(rule, "gts.replaceBytes|alloc", pos, "result is not allocated with make([]byte, n)")
		return
	}
	lenOK := false
	if lc, ok := ast.Unparen(mk.Args[1]).(*ast.CallExpr); ok && core.IsBuiltin(info, lc, "len") && len(lc.Args) == 1 {
		lenOK = core.ParamIndex(info, fd, core.ObjOf(info, lc.Args[0])) == 0
	}
	if lenOK {
		r.Ok(rule, "gts.replaceBytes|alloc", p.Pos(mk.Pos()), "result has len(input) bytes: length is preserved")
	} else {
		r.Bad(rule, "gts.replaceBytes|alloc", p.Pos(mk.Pos()), "result length is not len(first parameter)")
	}
	// the range loop over param 0
	var loop *ast.RangeStmt
	ast.Inspect(fd.Body, func(n ast.Node) bool {
		if rs, ok := n.(*ast.RangeStmt); ok && core.ParamIndex(info, fd, core.ObjOf(info, rs.X)) == 0 {
			loop = rs
		}
		return true
	})
	if loop == nil || loop.Key == nil || loop.Value == nil {
		r.Und(rule, "gts.replaceBytes|loop", pos, "no `for i, c := range <input>` loop found")
		return
	}
	iObj, cObj := core.ObjOf(info, loop.Key), core.ObjOf(info, loop.Value)
	// collect stores ret[i] = X with their branch condition wrt. j
	type store struct {
		rhs  ast.Expr
		miss int // +1 under "lookup missed", -1 under "hit", 0 unknown
		pos  token.Pos
	}
	var stores []store
	var jObj types.Object
	isIdx := func(c *ast.CallExpr) bool {
		return core.IsCallTo(info, c, "bytes.IndexByte") && len(c.Args) == 2 &&
			core.ParamIndex(info, fd, core.ObjOf(info, c.Args[0])) == 1 && core.ObjOf(info, c.Args[1]) == cObj
	}
	var walk func(n ast.Node, miss int)
	collect := func(s ast.Stmt, miss int) {
		as, ok := s.(*ast.AssignStmt)
		if !ok || len(as.Lhs) != 1 || len(as.Rhs) != 1 {
			return
		}
		ix, ok := as.Lhs[0].(*ast.IndexExpr)
		if !ok || core.ObjOf(info, ix.X) != ret {
			return
		}
		if core.ObjOf(info, ix.Index) != iObj {
			stores = append(stores, store{nil, 0, as.Pos()})
			return
		}
		stores = append(stores, store{as.Rhs[0], miss, as.Pos()})
	}
	isMinus1 := func(e ast.Expr) bool { v, ok := core.ConstInt(info, e); return ok && v == -1 }
	isZero := func(e ast.Expr) bool { v, ok := core.ConstInt(info, e); return ok && v == 0 }
	condMiss := func(e ast.Expr) int { // +1: cond true means miss; -1: cond true means hit
		be, ok := ast.Unparen(e).(*ast.BinaryExpr)
		if !ok || core.ObjOf(info, be.X) != jObj || jObj == nil {
			return 0
		}
		switch {
		case be.Op == token.EQL && isMinus1(be.Y), be.Op == token.LSS && isZero(be.Y):
			return 1
		case be.Op == token.NEQ && isMinus1(be.Y), be.Op == token.GEQ && isZero(be.Y), be.Op == token.GTR && isMinus1(be.Y):
			return -1
		}
		return 0
	}
	walk = func(n ast.Node, miss int) {
		switch s := n.(type) {
		case *ast.BlockStmt:
			for _, st := range s.List {
				walk(st, miss)
			}
		case *ast.SwitchStmt:
			if as, ok := s.Init.(*ast.AssignStmt); ok && len(as.Lhs) == 1 && len(as.Rhs) == 1 {
				if c, ok := ast.Unparen(as.Rhs[0]).(*ast.CallExpr); ok && isIdx(c) {
					jObj = core.ObjOf(info, as.Lhs[0])
				}
			}
			if s.Tag != nil && jObj != nil && core.ObjOf(info, s.Tag) == jObj {
				for _, cc := range s.Body.List {
					cl := cc.(*ast.CaseClause)
					m := -1 // default: hit, provided a -1 case exists
					if len(cl.List) == 1 && isMinus1(cl.List[0]) {
						m = 1
					} else if cl.List != nil {
						m = 0
					}
					for _, st := range cl.Body {
						walk(st, m)
					}
				}
				return
			}
			for _, cc := range s.Body.List {
				for _, st := range cc.(*ast.CaseClause).Body {
					walk(st, 0)
				}
			}
		case *ast.IfStmt:
			if as, ok := s.Init.(*ast.AssignStmt); ok && len(as.Lhs) == 1 && len(as.Rhs) == 1 {
				if c, ok := ast.Unparen(as.Rhs[0]).(*ast.CallExpr); ok && isIdx(c) {
					jObj = core.ObjOf(info, as.Lhs[0])
				}
			}
			m := condMiss(s.Cond)
			walk(s.Body, m)
			if s.Else != nil {
				walk(s.Else, -m)
			} else if m != 0 {
				// statements after an `if` without else are not classified; handled by unknown stores
			}
		case *ast.AssignStmt:
			if len(s.Lhs) == 1 && len(s.Rhs) == 1 {
				if c, ok := ast.Unparen(s.Rhs[0]).(*ast.CallExpr); ok && isIdx(c) {
					jObj = core.ObjOf(info, s.Lhs[0])
					return
				}
			}
			collect(s, miss)
		}
	}
	walk(loop.Body, 0)
	if jObj == nil {
		r.Und(rule, "gts.replaceBytes|index", p.Pos(loop.Pos()), "no `j := bytes.IndexByte(<old>, c)` found in the loop")
		return
	}
	var hit, missN int
	for _, s := range stores {
		switch {
		case s.rhs == nil:
			r.Bad(rule, "gts.replaceBytes|store", p.Pos(s.pos), "result written at an index other than the loop index")
		case s.miss == 1:
			if core.ObjOf(info, s.rhs) == cObj {
				missN++
			} else {
				r.Bad(rule, "gts.replaceBytes|miss", p.Pos(s.pos), "on a failed lookup the byte written is not the input byte")
			}
		case s.miss == -1:
			ix, ok := ast.Unparen(s.rhs).(*ast.IndexExpr)
			if ok && core.ParamIndex(info, fd, core.ObjOf(info, ix.X)) == 2 && core.ObjOf(info, ix.Index) == jObj {
				hit++
			} else {
				r.Bad(rule, "gts.replaceBytes|hit", p.Pos(s.pos), "on a successful lookup the byte written is not new[j]")
			}
		default:
			r.Und(rule, "gts.replaceBytes|store", p.Pos(s.pos), "store to the result under a condition the rule cannot classify as hit/miss")
		}
	}
	if hit >= 1 {
		r.Ok(rule, "gts.replaceBytes|hit", p.Pos(loop.Pos()), "hit branch writes new[j], j = bytes.IndexByte(old, c)")
	} else {
		r.Bad(rule, "gts.replaceBytes|hit-missing", p.Pos(loop.Pos()), "no store of new[j] on the hit branch")
	}
	if missN >= 1 {
		r.Ok(rule, "gts.replaceBytes|miss", p.Pos(loop.Pos()), "miss branch writes the input byte")
	} else {
		r.Bad(rule, "gts.replaceBytes|miss-missing", p.Pos(loop.Pos()), "no store of the input byte on the miss branch")
	}
}

func matchClasses(p *core.Prog, r *core.Report, info *types.Info) {
	fd := p.FuncDecl(core.PkgGts, "Match")
	if fd == nil || fd.Body == nil {
		r.Und("CLASSES", "gts.Match|anchor", "-", "anchor-unresolved: gts.Match not found")
		return
	}
	r.Fn("gts.Match")
	asg := core.Assigns(info, fd.Body)
	// the loop over the (lower-cased) query bytes and its switch on the byte
	var loop *ast.RangeStmt
	var sw *ast.SwitchStmt
	ast.Inspect(fd.Body, func(n ast.Node) bool {
		rs, ok := n.(*ast.RangeStmt)
		if !ok || rs.Value == nil {
			return true
		}
		v := core.ObjOf(info, rs.Value)
		for _, st := range rs.Body.List {
			if s, ok := st.(*ast.SwitchStmt); ok && s.Tag != nil && core.ObjOf(info, s.Tag) == v && v != nil {
				loop, sw = rs, s
			}
		}
		return true
	})
	// the same table as data: `if class, ok := T[c]; ok { b.WriteString(class) } else { literal }` with T a
	// package-level map literal nothing writes to
	var tbl *classTable
	if sw == nil {
		loop, tbl = matchTable(p, info, fd)
	}
	if sw == nil && tbl == nil {
		r.Und("CLASSES", "gts.Match|switch", p.Pos(fd.Pos()), "no switch on the ranged query byte found")
		return
	}
	cObj := core.ObjOf(info, loop.Value)
	anchor := loop.Pos()
	if sw != nil {
		anchor = sw.Pos()
	}
	// builder variable: receiver of the Write* calls inside the switch
	isBuilderWrite := func(c *ast.CallExpr) (string, bool) {
		fn := core.Callee(info, c)
		if fn == nil {
			return "", false
		}
		id := core.FuncID(fn)
		if strings.HasPrefix(id, "strings.Builder.Write") || strings.HasPrefix(id, "bytes.Buffer.Write") {
			return fn.Name(), true
		}
		return "", false
	}
	alphabet := []byte("acgturykmswbdhvn")
	expected := func(q byte) string {
		var out []byte
		for _, x := range alphabet {
			if iupac[upper(x)]&^iupac[upper(q)] == 0 {
				out = append(out, x)
			}
		}
		sort.Slice(out, func(i, j int) bool { return out[i] < out[j] })
		return string(out)
	}
	classOf := map[byte]string{} // query letter -> class written ("" = literal)
	casePos := map[byte]token.Pos{}
	hasCase := map[byte]bool{}
	var deflt *ast.CaseClause
	litN := 0
	var clauses []ast.Stmt
	if sw != nil {
		clauses = sw.Body.List
	} else {
		for q, w := range tbl.class {
			hasCase[q], casePos[q], classOf[q] = true, tbl.pos[q], w
		}
		if tbl.miss != nil {
			deflt = &ast.CaseClause{Case: tbl.miss.Pos()}
		}
	}
	for _, cc := range clauses {
		cl := cc.(*ast.CaseClause)
		if cl.List == nil {
			deflt = cl
			continue
		}
		// what this clause writes
		written, dynamic := "", false
		nW := 0
		for _, st := range cl.Body {
			for _, c := range core.Calls(st) {
				name, ok := isBuilderWrite(c)
				if !ok || len(c.Args) != 1 {
					continue
				}
				nW++
				if s, ok := core.ConstString(info, c.Args[0]); ok && name == "WriteString" {
					written += s
				} else if v, ok := core.ConstInt(info, c.Args[0]); ok && (name == "WriteByte" || name == "WriteRune") {
					written += string(rune(v))
				} else {
					dynamic = true
				}
			}
		}
		for _, e := range cl.List {
			v, ok := core.ConstInt(info, e)
			if !ok || v < 0 || v > 255 {
				r.Und("CLASSES", "gts.Match|case", p.Pos(e.Pos()), "non-constant case label")
				continue
			}
			q := byte(v)
			hasCase[q] = true
			casePos[q] = cl.Pos()
			if dynamic || nW != 1 {
				classOf[q] = "?"
			} else {
				classOf[q] = written
			}
		}
	}
	parseClass := func(s string) (string, bool) {
		if s == "." {
			return ".", true
		}
		if len(s) >= 3 && s[0] == '[' && s[len(s)-1] == ']' {
			body := s[1 : len(s)-1]
			if strings.ContainsAny(body, "^-\\[]") {
				return "", false
			}
			bs := []byte(body)
			sort.Slice(bs, func(i, j int) bool { return bs[i] < bs[j] })
			// dedupe
			out := bs[:0]
			for i, b := range bs {
				if i == 0 || b != bs[i-1] {
					out = append(out, b)
				}
			}
			return string(out), true
		}
		if len(s) == 1 && !strings.ContainsAny(s, `\.+*?()|[]{}^$`) {
			return s, true
		}
		return "", false
	}
	for _, q := range alphabet {
		key := fmt.Sprintf("gts.Match|query=%c", q)
		want := expected(q)
		if !hasCase[q] {
			// falls to the default branch: literal, matches only itself
			pos := p.Pos(anchor)
			if deflt == nil {
				r.Bad("CLASSES", key, pos, "no case and no default branch: the query letter is dropped from the pattern")
			} else if want == string([]byte{q}) {
				r.Ok("CLASSES", key, pos, fmt.Sprintf("handled by the literal branch; expected class {%s}", want))
			} else {
				r.Bad("CLASSES", key, pos, fmt.Sprintf("query letter %q has no case and is matched literally; IUPAC class is {%s}", q, want))
			}
			continue
		}
		pos := p.Pos(casePos[q])
		got, ok := parseClass(classOf[q])
		switch {
		case !ok:
			r.Und("CLASSES", key, pos, fmt.Sprintf("case for %q writes %q, which is not a plain character class", q, classOf[q]))
		case got == "." && q == 'n':
			r.Ok("CLASSES", key, pos, "n matches any letter")
		case got == ".":
			r.Bad("CLASSES", key, pos, fmt.Sprintf("query letter %q is written as `.` (matches everything); IUPAC class is {%s}", q, want))
		case got == want:
			r.Ok("CLASSES", key, pos, fmt.Sprintf("class {%s}", got))
		default:
			r.Bad("CLASSES", key, pos, fmt.Sprintf("query letter %q is written as class {%s}; IUPAC containment gives {%s}", q, got, want))
		}
	}
	// any case label outside the alphabet must still be a sound class: only literal itself
	var extra []int
	for q := range hasCase {
		if !strings.ContainsRune(string(alphabet), rune(q)) {
			extra = append(extra, int(q))
		}
	}
	sort.Ints(extra)
	for _, qi := range extra {
		q := byte(qi)
		got, ok := parseClass(classOf[q])
		key := fmt.Sprintf("gts.Match|query=%s", showByte(q))
		if ok && got == string([]byte{q}) {
			r.Ok("CLASSES", key, p.Pos(casePos[q]), "non-alphabet byte matches only itself")
		} else {
			r.Bad("CLASSES", key, p.Pos(casePos[q]), fmt.Sprintf("byte %s outside the alphabet is written as %q and does not match only itself", showByte(q), classOf[q]))
		}
	}

	// LITERAL: dynamic text written to the builder must go through QuoteMeta.
	var bObj types.Object
	ast.Inspect(fd.Body, func(n ast.Node) bool {
		c, ok := n.(*ast.CallExpr)
		if !ok {
			return true
		}
		name, ok := isBuilderWrite(c)
		if !ok || len(c.Args) != 1 {
			return true
		}
		if sel, ok := ast.Unparen(c.Fun).(*ast.SelectorExpr); ok {
			bObj = core.ObjOf(info, sel.X)
		}
		if _, isConst := info.Types[c.Args[0]]; isConst && info.Types[c.Args[0]].Value != nil {
			return true
		}
		if tbl != nil && core.ObjOf(info, c.Args[0]) == tbl.val && tbl.val != nil && name == "WriteString" {
			return true // the class looked up in the table, decided entry by entry above
		}
		litN++
		key := fmt.Sprintf("gts.Match|dynamic-write#%d", litN)
		arg := core.Origin(info, asg, c.Args[0])
		if qc, ok := arg.(*ast.CallExpr); ok && core.IsCallTo(info, qc, "regexp.QuoteMeta") && name == "WriteString" {
			if core.UsesObj(info, qc, cObj) {
				r.Ok("LITERAL", key, p.Pos(c.Pos()), "query byte is escaped with regexp.QuoteMeta before it reaches the pattern")
				// LITERAL-HIGH: a byte >= 0x80 written as a one-byte string is not valid UTF-8; the pattern
				// does not compile and Match gives up. Unless something in front of the write restricts the
				// byte to ASCII, a literal high byte never matches itself.
				guarded := false
				par := core.Parents(fd.Body)
				for m := par[ast.Node(c)]; m != nil && !guarded; m = par[m] {
					is, isIf := m.(*ast.IfStmt)
					if !isIf {
						continue
					}
					core.Facts(is.Cond, true, func(atom ast.Expr, val bool) {
						be, ok := ast.Unparen(atom).(*ast.BinaryExpr)
						if !ok || core.ObjOf(info, be.X) != cObj {
							return
						}
						k, isConst := core.ConstInt(info, be.Y)
						if isConst && val && ((be.Op == token.LSS && k <= 0x80) || (be.Op == token.LEQ && k < 0x80)) {
							guarded = true
						}
					})
				}
				hkey := "gts.Match|high-bytes"
				if guarded {
					r.Ok("LITERAL-HIGH", hkey, p.Pos(c.Pos()), "only ASCII bytes are written as one-byte literals")
				} else {
					r.Bad("LITERAL-HIGH", hkey, p.Pos(c.Pos()), "a query byte of 0x80 or more is written to the pattern as a one-byte string, which is not valid UTF-8: regexp.Compile rejects the pattern and Match returns nothing. Failing input: Match(seq \"a\\xffa\", query \"\\xff\") returns no segment (a literal byte must match itself), and so does any query that contains such a byte")
				}
			} else {
				r.Und("LITERAL", key, p.Pos(c.Pos()), "QuoteMeta is applied to something other than the query byte")
			}
			return true
		}
		r.Bad("LITERAL", key, p.Pos(c.Pos()), "a query byte outside the alphabet is written into the regular expression unescaped: `(` `[` `\\` make the pattern invalid (panic in MustCompile), `.` `+` `*` change its meaning")
		return true
	})
	if litN == 0 {
		if deflt == nil {
			r.Bad("LITERAL", "gts.Match|default", p.Pos(anchor), "no branch writes non-alphabet query bytes: they vanish from the pattern")
		} else {
			r.Und("LITERAL", "gts.Match|default", p.Pos(deflt.Pos()), "default branch writes nothing query-derived")
		}
	}
	// compile: pattern = builder.String(); constructor must return the error
	nComp := 0
	for _, c := range core.Calls(fd.Body) {
		isMust := core.IsCallTo(info, c, "regexp.MustCompile", "regexp.MustCompilePOSIX")
		isComp := core.IsCallTo(info, c, "regexp.Compile", "regexp.CompilePOSIX")
		if !isMust && !isComp {
			continue
		}
		if _, ok := core.ConstString(info, c.Args[0]); ok {
			continue
		}
		nComp++
		key := "gts.Match|compile"
		src := core.Origin(info, asg, c.Args[0])
		fromBuilder := false
		if sc, ok := src.(*ast.CallExpr); ok {
			if sel, ok := ast.Unparen(sc.Fun).(*ast.SelectorExpr); ok && sel.Sel.Name == "String" && core.ObjOf(info, sel.X) == bObj && bObj != nil {
				fromBuilder = true
			}
		}
		if !fromBuilder {
			r.Und("LITERAL", key, p.Pos(c.Pos()), "compiled pattern is not the builder's String()")
			continue
		}
		if isMust {
			r.Bad("LITERAL", key, p.Pos(c.Pos()), "pattern built from query bytes is compiled with regexp.MustCompile, which panics on any invalid pattern (e.g. a query byte that is not valid UTF-8)")
		} else {
			r.Ok("LITERAL", key, p.Pos(c.Pos()), "pattern compiled with the error-returning constructor")
		}
	}
	if nComp == 0 {
		r.Und("LITERAL", "gts.Match|compile", p.Pos(fd.Pos()), "no regexp compilation of the built pattern found")
	}
}

// fold checks case folding, hit count and sorting in Search and Match.
func fold(p *core.Prog, r *core.Report, info *types.Info) {
	sorted := func(fd *ast.FuncDecl, asg map[types.Object][]core.Assign) (bool, string) {
		// every return of a non-nil value returns a variable that was passed to sort.Sort(BySegment(v))
		var retObjs []types.Object
		ok := true
		ast.Inspect(fd.Body, func(n ast.Node) bool {
			if _, isLit := n.(*ast.FuncLit); isLit {
				return false
			}
			rs, isRet := n.(*ast.ReturnStmt)
			if !isRet || len(rs.Results) != 1 {
				return true
			}
			if id, isId := rs.Results[0].(*ast.Ident); isId && id.Name == "nil" {
				return true
			}
			o := core.ObjOf(info, rs.Results[0])
			if o == nil {
				ok = false
				return true
			}
			retObjs = append(retObjs, o)
			return true
		})
		if !ok || len(retObjs) == 0 {
			return false, "a return does not return a local variable"
		}
		for _, o := range retObjs {
			found := false
			for _, c := range core.Calls(fd.Body) {
				if !core.IsCallTo(info, c, "sort.Sort", "sort.Stable") || len(c.Args) != 1 {
					continue
				}
				conv, isCall := ast.Unparen(c.Args[0]).(*ast.CallExpr)
				if !isCall || !core.IsConversion(info, conv) || len(conv.Args) != 1 {
					continue
				}
				if core.NamedOf(info.Types[conv.Fun].Type) != core.PkgGts+".BySegment" {
					continue
				}
				if core.ObjOf(info, conv.Args[0]) == o {
					found = true
				}
			}
			if !found {
				return false, "returned segments are not passed through sort.Sort(BySegment(...))"
			}
		}
		return true, ""
	}

	// Search
	if fd := p.FuncDecl(core.PkgGts, "Search"); fd == nil || fd.Body == nil {
		r.Und("FOLD", "gts.Search|anchor", "-", "anchor-unresolved: gts.Search not found")
	} else {
		r.Fn("gts.Search")
		asg := core.Assigns(info, fd.Body)
		// locate the suffix-array lookup: directly or through one repo helper
		type site struct {
			fd   *ast.FuncDecl
			call *ast.CallExpr
			args []ast.Expr // actuals in Search for (text, query)
		}
		var st *site
		for _, c := range core.Calls(fd.Body) {
			fn := core.Callee(info, c)
			if fn == nil || fn.Pkg() == nil || fn.Pkg().Path() != core.PkgGts || len(c.Args) != 2 {
				continue
			}
			hd := p.FuncDecl(core.PkgGts, fn.Name())
			if hd == nil || hd.Body == nil {
				continue
			}
			for _, lc := range core.Calls(hd.Body) {
				if core.IsCallTo(info, lc, "index/suffixarray.Index.Lookup") {
					st = &site{hd, lc, c.Args}
				}
			}
		}
		if st == nil {
			r.Und("FOLD", "gts.Search|lookup", p.Pos(fd.Pos()), "no suffix-array lookup reachable through one repo helper")
		} else {
			r.Fn("gts." + st.fd.Name.Name)
			hasg := core.Assigns(info, st.fd.Body)
			// text: suffixarray.New(param0); query: Lookup(param1, n<0)
			textOK, queryOK := false, false
			for _, nc := range core.Calls(st.fd.Body) {
				if core.IsCallTo(info, nc, "index/suffixarray.New") && len(nc.Args) == 1 &&
					core.ParamIndex(info, st.fd, core.ObjOf(info, core.Origin(info, hasg, nc.Args[0]))) == 0 {
					textOK = true
				}
			}
			if core.ParamIndex(info, st.fd, core.ObjOf(info, core.Origin(info, hasg, st.call.Args[0]))) == 1 {
				queryOK = true
			}
			pos := p.Pos(st.call.Pos())
			if textOK && queryOK {
				r.Ok("FOLD", "gts.Search|operands", pos, "the index is built over the 1st operand and asked for the 2nd")
			} else {
				r.Bad("FOLD", "gts.Search|operands", pos, "suffix-array helper does not index its 1st and look up its 2nd parameter")
			}
			if n, ok := core.ConstInt(info, st.call.Args[1]); ok && n < 0 {
				r.Ok("FOLD", "gts.Search|all-hits", pos, "Lookup is asked for all occurrences (n < 0)")
			} else {
				r.Bad("FOLD", "gts.Search|all-hits", pos, "Lookup is given a non-negative or non-constant limit: overlapping/late occurrences can be dropped")
			}
			if foldBytewise(p, r, info, "gts.Search|seq", fd, st.args[0], 0, "the sequence operand of the suffix-array search") {
				r.Ok("FOLD", "gts.Search|lower-seq", p.Pos(st.args[0].Pos()), "sequence operand is case-folded")
			} else {
				r.Bad("FOLD", "gts.Search|lower-seq", p.Pos(st.args[0].Pos()), "sequence operand is not case-folded: search is case-sensitive")
			}
			if foldBytewise(p, r, info, "gts.Search|query", fd, st.args[1], 1, "the query operand of the suffix-array search (its length gives the end of every hit)") {
				r.Ok("FOLD", "gts.Search|lower-query", p.Pos(st.args[1].Pos()), "query operand is case-folded")
			} else {
				r.Bad("FOLD", "gts.Search|lower-query", p.Pos(st.args[1].Pos()), "query operand is not case-folded: search is case-sensitive")
			}
		}
		if ok, why := sorted(fd, asg); ok {
			r.Ok("FOLD", "gts.Search|sorted", p.Pos(fd.Pos()), "hits are sorted with BySegment before they are returned")
		} else {
			r.Bad("FOLD", "gts.Search|sorted", p.Pos(fd.Pos()), why+": suffix-array hits come back in index order, not ascending")
		}
	}

	// early exits: Search and Match may give up before searching only when an operand is empty
	for _, name := range []string{"Search", "Match"} {
		fd := p.FuncDecl(core.PkgGts, name)
		if fd == nil || fd.Body == nil {
			continue
		}
		par := core.Parents(fd.Body)
		n := 0
		for _, rs := range core.Returns(fd.Body) {
			if len(rs.Results) != 1 || !core.IsNil(info, rs.Results[0]) {
				continue
			}
			n++
			key := fmt.Sprintf("gts.%s|early-exit#%d", name, n)
			var cond ast.Expr
			for m := par[rs]; m != nil; m = par[m] {
				if is, ok := m.(*ast.IfStmt); ok {
					cond = is.Cond
					break
				}
			}
			okEmpty := cond != nil
			var check func(e ast.Expr)
			check = func(e ast.Expr) {
				be, isBin := ast.Unparen(e).(*ast.BinaryExpr)
				if !isBin {
					// `err != nil` after compiling the pattern is a legitimate exit for Match
					okEmpty = false
					return
				}
				if be.Op == token.LOR {
					check(be.X)
					check(be.Y)
					return
				}
				if be.Op == token.NEQ && core.IsNil(info, be.Y) {
					if tv, ok := info.Types[be.X]; ok && tv.Type.String() == "error" {
						return
					}
				}
				z, isZero := core.ConstInt(info, be.Y)
				c, isCall := ast.Unparen(be.X).(*ast.CallExpr)
				if be.Op != token.EQL || !isZero || z != 0 || !isCall || !(core.IsCallTo(info, c, core.PkgGts+".Len") || core.IsBuiltin(info, c, "len")) {
					okEmpty = false
				}
			}
			if cond != nil {
				check(cond)
			}
			if okEmpty {
				r.Ok("FOLD", key, p.Pos(rs.Pos()), "gives up before searching only for an empty operand (or an uncompilable pattern)")
			} else {
				r.Bad("FOLD", key, p.Pos(rs.Pos()), "returns no hits before searching on a condition other than an empty operand: occurrences that satisfy it are never reported")
			}
		}
	}

	// Match
	if fd := p.FuncDecl(core.PkgGts, "Match"); fd != nil && fd.Body != nil {
		asg := core.Assigns(info, fd.Body)
		// query: the range over ToLower(query.Bytes())
		qOK := false
		var patLoop *ast.RangeStmt
		ast.Inspect(fd.Body, func(n ast.Node) bool {
			if rs, ok := n.(*ast.RangeStmt); ok && patLoop == nil {
				// the loop that writes the pattern
				for _, c := range core.Calls(rs.Body) {
					if fn := core.Callee(info, c); fn != nil && (fn.Name() == "WriteString" || fn.Name() == "WriteByte" || fn.Name() == "WriteRune") {
						patLoop = rs
					}
				}
			}
			return true
		})
		if patLoop != nil {
			qOK = foldBytewise(p, r, info, "gts.Match|query", fd, patLoop.X, 1, "the query the pattern is built from")
		} else {
			r.Und("FOLD-BYTEWISE", "gts.Match|query", p.Pos(fd.Pos()), "no loop that writes the pattern found")
		}
		if qOK {
			r.Ok("FOLD", "gts.Match|lower-query", p.Pos(fd.Pos()), "pattern is built from the case-folded query")
		} else {
			r.Bad("FOLD", "gts.Match|lower-query", p.Pos(fd.Pos()), "pattern is not built from the case-folded query: upper-case queries miss their classes")
		}
		found := false
		for _, c := range core.Calls(fd.Body) {
			if !core.IsCallTo(info, c, "regexp.Regexp.FindAllIndex") || len(c.Args) != 2 {
				continue
			}
			found = true
			if foldBytewise(p, r, info, "gts.Match|seq", fd, c.Args[0], 0, "the text the pattern is matched against (its offsets are reported)") {
				r.Ok("FOLD", "gts.Match|lower-seq", p.Pos(c.Pos()), "matched text is case-folded")
			} else {
				r.Bad("FOLD", "gts.Match|lower-seq", p.Pos(c.Pos()), "matched text is not case-folded while the classes are lower-case")
			}
			if n, ok := core.ConstInt(info, c.Args[1]); ok && n < 0 {
				r.Ok("FOLD", "gts.Match|all-hits", p.Pos(c.Pos()), "FindAllIndex is asked for all matches (n < 0)")
			} else {
				r.Bad("FOLD", "gts.Match|all-hits", p.Pos(c.Pos()), "FindAllIndex is given a non-negative or non-constant limit: later matches are dropped")
			}
		}
		if !found {
			r.Und("FOLD", "gts.Match|find", p.Pos(fd.Pos()), "no FindAllIndex call found")
		}
		if ok, why := sorted(fd, asg); ok {
			r.Ok("FOLD", "gts.Match|sorted", p.Pos(fd.Pos()), "matches are sorted with BySegment before they are returned")
		} else {
			r.Bad("FOLD", "gts.Match|sorted", p.Pos(fd.Pos()), why)
		}
	}
}

// Alphabet runs the complement-table rules (COMP, TRANS, LOOKUP, WIRE) and the
// involution check; used by C05, whose statement rests on the same tables.
func Alphabet(p *core.Prog, r *core.Report) {
	r.Rule("COMP", "the complement alphabet translates each of the 256 byte values to the IUPAC complement (case preserved, others unchanged)", 33)
	r.Rule("LOOKUP", "the translation helper allocates len(input) bytes and writes, for every index, either the input byte (lookup missed) or new[first index of the byte in old]", 3)
	r.Rule("WIRE", "the translated bytes are computed from the argument's Bytes() and are the bytes of the returned sequence", 1)
	r.Rule("INVOLUTION", "the complement table composed with itself is the identity on every byte except U/u, which read back as T/t", 1)
	info := p.Info(core.PkgGts)
	compTable(p, r, info, "Complement", "COMP", false)
	lookup(p, r, info)
	// involution on the oracle-checked table: follows from COMP, recorded as its own obligation
	bad := ""
	for v := 0; v < 256; v++ {
		b := byte(v)
		bb := oracleComplement(oracleComplement(b, false), false)
		want := b
		if b == 'U' {
			want = 'T'
		}
		if b == 'u' {
			want = 't'
		}
		if bb != want {
			bad = showByte(b)
		}
	}
	if bad == "" {
		r.Ok("INVOLUTION", "gts.Complement", "-", "complement(complement(b)) = b for all 256 bytes, except U->A->T")
	} else {
		r.Bad("INVOLUTION", "gts.Complement", "-", "not an involution at byte "+bad)
	}
}

// classTable is the query-letter table of Match given as a map literal.
type classTable struct {
	class map[byte]string
	pos   map[byte]token.Pos
	val   types.Object // the variable that receives the looked-up class
	miss  ast.Stmt     // what runs when the byte is not in the table
}

// matchTable recognises the lookup form of the class table in Match: inside
// the loop over the query bytes a comma-ok lookup `v, ok := T[c]` whose hit
// branch writes v and whose miss branch writes the literal. T must be a
// package-level map[byte]string whose literal has constant keys and values and
// which the package only ever reads by index.
func matchTable(p *core.Prog, info *types.Info, fd *ast.FuncDecl) (*ast.RangeStmt, *classTable) {
	var loop *ast.RangeStmt
	var out *classTable
	ast.Inspect(fd.Body, func(n ast.Node) bool {
		rs, ok := n.(*ast.RangeStmt)
		if !ok || rs.Value == nil || out != nil {
			return true
		}
		c := core.ObjOf(info, rs.Value)
		if c == nil {
			return true
		}
		lookup := func(st ast.Stmt) (types.Object, types.Object, *types.Var) {
			as, ok := st.(*ast.AssignStmt)
			if !ok || len(as.Lhs) != 2 || len(as.Rhs) != 1 {
				return nil, nil, nil
			}
			ix, ok := ast.Unparen(as.Rhs[0]).(*ast.IndexExpr)
			if !ok || core.ObjOf(info, ix.Index) != c {
				return nil, nil, nil
			}
			t, ok := core.ObjOf(info, ix.X).(*types.Var)
			if !ok || t.Pkg() == nil || t.Parent() != t.Pkg().Scope() {
				return nil, nil, nil
			}
			return core.ObjOf(info, as.Lhs[0]), core.ObjOf(info, as.Lhs[1]), t
		}
		var v, okv types.Object
		var t *types.Var
		for _, st := range rs.Body.List {
			if a, b, c := lookup(st); c != nil {
				v, okv, t = a, b, c
				continue
			}
			is, isIf := st.(*ast.IfStmt)
			if !isIf {
				continue
			}
			if is.Init != nil {
				if a, b, c := lookup(is.Init); c != nil {
					v, okv, t = a, b, c
				}
			}
			if t == nil || okv == nil || v == nil {
				continue
			}
			hit, miss := ast.Stmt(is.Body), is.Else
			switch x := ast.Unparen(is.Cond).(type) {
			case *ast.Ident:
				if info.Uses[x] != okv {
					continue
				}
			case *ast.UnaryExpr:
				if x.Op != token.NOT || core.ObjOf(info, x.X) != okv {
					continue
				}
				hit, miss = is.Else, is.Body
			default:
				continue
			}
			if hit == nil {
				continue
			}
			class, pos, ok := mapLiteral(p, info, t)
			if !ok {
				continue
			}
			loop, out = rs, &classTable{class: class, pos: pos, val: v, miss: miss}
		}
		return true
	})
	return loop, out
}

// mapLiteral returns the constant entries of the package-level map variable t,
// provided its initialiser is a composite literal of constant byte keys and
// constant string values and every other mention of t in its package is an
// index expression that is read.
func mapLiteral(p *core.Prog, info *types.Info, t *types.Var) (map[byte]string, map[byte]token.Pos, bool) {
	class, pos := map[byte]string{}, map[byte]token.Pos{}
	found, clean := false, true
	for _, f := range p.Pkg(core.PkgGts).Syntax {
		par := core.Parents(f)
		ast.Inspect(f, func(n ast.Node) bool {
			id, ok := n.(*ast.Ident)
			if !ok {
				return true
			}
			if info.Defs[id] == t {
				vs, ok := par[ast.Node(id)].(*ast.ValueSpec)
				if !ok || len(vs.Names) != 1 || len(vs.Values) != 1 {
					clean = false
					return true
				}
				cl, ok := ast.Unparen(vs.Values[0]).(*ast.CompositeLit)
				if !ok {
					clean = false
					return true
				}
				for _, e := range cl.Elts {
					kv, ok := e.(*ast.KeyValueExpr)
					if !ok {
						clean = false
						continue
					}
					k, ok1 := core.ConstInt(info, kv.Key)
					v, ok2 := core.ConstString(info, kv.Value)
					if !ok1 || !ok2 || k < 0 || k > 255 {
						clean = false
						continue
					}
					class[byte(k)], pos[byte(k)] = v, kv.Pos()
				}
				found = true
				return true
			}
			if info.Uses[id] != t {
				return true
			}
			ix, ok := par[ast.Node(id)].(*ast.IndexExpr)
			if !ok || ix.X != ast.Expr(id) {
				clean = false // passed on, ranged over, re-assigned: the table is no longer what its literal says
				return true
			}
			switch up := par[ast.Node(ix)].(type) {
			case *ast.AssignStmt:
				for _, l := range up.Lhs {
					if l == ast.Expr(ix) {
						clean = false
					}
				}
			case *ast.IncDecStmt:
				clean = false
			case *ast.UnaryExpr:
				if up.Op == token.AND {
					clean = false
				}
			}
			return true
		})
	}
	return class, pos, found && clean
}

package tables

import (
	"fmt"
	"go/ast"
	"go/constant"
	"go/token"
	"go/types"
	"regexp"
	"sort"
	"strings"

	"gtsverif/core"
)

var (
	labelHead  = regexp.MustCompile(`^( *)([A-Z]{5,})( *)`)
	verbWidth  = regexp.MustCompile(`^%-?(\d+)[sd]`)
	months     = []string{"JAN", "FEB", "MAR", "APR", "MAY", "JUN", "JUL", "AUG", "SEP", "OCT", "NOV", "DEC"}
	monthDays  = []int64{31, 28, 31, 30, 31, 30, 31, 31, 30, 31, 30, 31}
	writerFns  = []string{"GenBank.String", "genbankFieldFormatter"}
	readerRoot = "GenBankParser"
)

type strConst struct {
	s   string
	pos token.Pos
}

func stringConsts(info *types.Info, n ast.Node, onlyCallArgs bool) []strConst {
	var out []strConst
	seen := map[token.Pos]bool{}
	add := func(e ast.Expr) {
		ast.Inspect(e, func(m ast.Node) bool {
			x, ok := m.(ast.Expr)
			if !ok {
				return true
			}
			if tv, ok := info.Types[x]; ok && tv.Value != nil && tv.Value.Kind() == constant.String && !seen[x.Pos()] {
				seen[x.Pos()] = true
				out = append(out, strConst{constant.StringVal(tv.Value), x.Pos()})
				return false
			}
			return true
		})
	}
	ast.Inspect(n, func(m ast.Node) bool {
		switch x := m.(type) {
		case *ast.CallExpr:
			for _, a := range x.Args {
				add(a)
			}
		case *ast.BinaryExpr:
			if !onlyCallArgs {
				add(x)
			}
		case *ast.IndexExpr:
			if !onlyCallArgs {
				add(x.Index)
			}
		}
		return true
	})
	return out
}

// label extracts the field label of a writer constant ("" if none).
func label(s string) (lead int, name string, pad int, rest string) {
	if s == "//\n" || s == "//" {
		return 0, "//", 0, ""
	}
	m := labelHead.FindStringSubmatch(s)
	if m == nil {
		return 0, "", 0, ""
	}
	rest = s[len(m[0]):]
	if len(m[3]) == 0 && rest != "" && rest[0] != '\n' {
		return 0, "", 0, "" // capitals followed by punctuation: not a field label
	}
	return len(m[1]), m[2], len(m[3]), rest
}

// C01 decides LABELS, WIDTH and CALENDAR.
func C01(p *core.Prog, r *core.Report) {
	r.Rule("LABELS", "every field label the GenBank writer can emit is a label a reader sub-parser reachable from GenBankParser is keyed on", 19)
	r.Rule("WIDTH", "every label constant that forms a column prefix, the width of the %-Ns verbs of the LOCUS line and of the extra-field formatter, and len(defaultGenBankIndent) are one number (the reader derives its field depth from the LOCUS line and demands depth-len(name) spaces after every name)", 16)
	r.Rule("CALENDAR", "monthMap maps the upper-cased English abbreviation of each month (the writer's spelling) and every other recognised spelling to the right month; dayMap has the 12 Gregorian month lengths; isLeapYear is the Gregorian rule for every residue of the year modulo 400", 26)
	r.NotDecided = append(r.NotDecided, "equality of residues, feature tables and field values after a round trip", "the byte-for-byte write-read-write fixed point", "multi-record framing beyond the terminator label", "the qualifier registries' runtime learning", "the known hole: a record with an empty feature table is written as a table the reader rejects (a cardinality mismatch between two grammars)")
	r.Assumptions = append(r.Assumptions, "time.Format(\"Jan\") yields the English three-letter month abbreviation", "fmt's %-Ns pads on the right to N columns")
	info := p.Info(core.PkgSeqio)

	// ---- writer side
	type wlabel struct {
		strConst
		lead, pad  int
		name, rest string
	}
	var wl []wlabel
	var widths []struct {
		n    int64
		what string
		pos  token.Pos
	}
	for _, name := range writerFns {
		fd := p.FuncDecl(core.PkgSeqio, name)
		if fd == nil || fd.Body == nil {
			r.Und("LABELS", "seqio."+name+"|anchor", "-", "anchor-unresolved: writer function not found")
			continue
		}
		r.Fn("seqio." + name)
		for _, sc := range stringConsts(info, fd.Body, false) {
			if lead, nm, pad, rest := label(sc.s); nm != "" {
				wl = append(wl, wlabel{sc, lead, pad, nm, rest})
			}
			// %-Ns verbs at the start of a format string
			if m := verbWidth.FindStringSubmatch(sc.s); m != nil && strings.HasPrefix(sc.s, "%-") {
				var n int64
				fmt.Sscan(m[1], &n)
				widths = append(widths, struct {
					n    int64
					what string
					pos  token.Pos
				}{n, "seqio." + name + " format " + fmt.Sprintf("%q", m[0]), sc.pos})
			}
		}
	}
	// ---- reader side: functions and package variables reachable from GenBankParser
	pk := p.Pkg(core.PkgSeqio)
	reach := map[types.Object]bool{}
	var work []types.Object
	push := func(o types.Object) {
		if o != nil && !reach[o] && o.Pkg() != nil && o.Pkg().Path() == core.PkgSeqio {
			reach[o] = true
			work = append(work, o)
		}
	}
	root := pk.Types.Scope().Lookup(readerRoot)
	if root == nil {
		r.Und("LABELS", "seqio.GenBankParser|anchor", "-", "anchor-unresolved: reader root not found")
		return
	}
	push(root)
	declOf := map[types.Object]ast.Node{}
	for _, fd := range p.FuncDecls(core.PkgSeqio) {
		declOf[info.Defs[fd.Name]] = fd
	}
	for _, f := range pk.Syntax {
		for _, d := range f.Decls {
			if gd, ok := d.(*ast.GenDecl); ok && gd.Tok == token.VAR {
				for _, s := range gd.Specs {
					vs := s.(*ast.ValueSpec)
					for i, n := range vs.Names {
						if i < len(vs.Values) {
							declOf[info.Defs[n]] = vs.Values[i]
						}
					}
				}
			}
		}
	}
	writer := map[types.Object]bool{}
	for _, name := range writerFns {
		if fd := p.FuncDecl(core.PkgSeqio, name); fd != nil {
			writer[info.Defs[fd.Name]] = true
		}
	}
	R := map[string]token.Pos{}
	nReader := 0
	for len(work) > 0 {
		o := work[len(work)-1]
		work = work[:len(work)-1]
		n := declOf[o]
		if n == nil || writer[o] {
			continue
		}
		nReader++
		ast.Inspect(n, func(m ast.Node) bool {
			if id, ok := m.(*ast.Ident); ok {
				switch u := info.Uses[id].(type) {
				case *types.Func:
					push(u)
				case *types.Var:
					if u.Parent() == pk.Types.Scope() {
						push(u)
					}
				}
			}
			return true
		})
		for _, sc := range stringConsts(info, n, true) {
			t := strings.TrimSpace(sc.s)
			if _, ok := R[t]; !ok {
				R[t] = sc.pos
			}
		}
	}
	r.Extra["reader_functions_reached"] = nReader
	seenLabel := map[string]bool{}
	var names []string
	for _, w := range wl {
		if !seenLabel[w.name] {
			seenLabel[w.name] = true
			names = append(names, w.name)
		}
	}
	sort.Strings(names)
	for _, nm := range names {
		var pos token.Pos
		for _, w := range wl {
			if w.name == nm {
				pos = w.pos
				break
			}
		}
		if _, ok := R[nm]; ok {
			r.Ok("LABELS", "seqio.GenBank.String|label="+nm, p.Pos(pos), "a reader sub-parser is keyed on this label")
		} else {
			r.Bad("LABELS", "seqio.GenBank.String|label="+nm, p.Pos(pos), fmt.Sprintf("the writer emits field label %q but no parser reachable from GenBankParser is keyed on it: a record containing this field is not read back into it", nm))
		}
	}

	// ---- WIDTH
	var W int64 = -1
	for _, w := range widths {
		if strings.Contains(w.what, "GenBank.String") && W < 0 {
			W = w.n
		}
	}
	if W < 0 {
		r.Und("WIDTH", "seqio.GenBank.String|locus-width", "-", "no %-Ns verb found at the head of the LOCUS format")
	} else {
		for i, w := range widths {
			key := fmt.Sprintf("%s|verb#%d", strings.Fields(w.what)[0], i+1)
			if w.n == W {
				r.Ok("WIDTH", key, p.Pos(w.pos), fmt.Sprintf("%s pads to %d columns", w.what, w.n))
			} else {
				r.Bad("WIDTH", key, p.Pos(w.pos), fmt.Sprintf("%s pads to %d columns but the LOCUS line pads to %d: the reader's depth does not fit this field", w.what, w.n, W))
			}
		}
		for _, w := range wl {
			if w.name == "//" || w.name == "FEATURES" || w.name == "LOCUS" && w.pad == 0 && w.rest == "" {
				continue
			}
			prefix := w.lead + len(w.name) + w.pad
			// a column prefix: padded label, then end / newline / a verb
			if w.pad == 0 {
				continue
			}
			if w.rest != "" && w.rest[0] != '%' && w.rest[0] != '\n' {
				continue
			}
			key := "seqio.GenBank.String|prefix=" + w.name
			if int64(prefix) == W {
				r.Ok("WIDTH", key, p.Pos(w.pos), fmt.Sprintf("column prefix %q is %d columns", w.s[:prefix], prefix))
			} else {
				r.Bad("WIDTH", key, p.Pos(w.pos), fmt.Sprintf("column prefix %q is %d columns wide, the LOCUS line fixes the depth at %d: the reader reports an uneven indent for this field", w.s[:prefix], prefix, W))
			}
		}
		if o := pk.Types.Scope().Lookup("defaultGenBankIndent"); o != nil {
			if c, ok := o.(*types.Const); ok && c.Val().Kind() == constant.String {
				n := int64(len(constant.StringVal(c.Val())))
				if n == W {
					r.Ok("WIDTH", "seqio.defaultGenBankIndent", p.Pos(o.Pos()), fmt.Sprintf("continuation indent is %d columns", n))
				} else {
					r.Bad("WIDTH", "seqio.defaultGenBankIndent", p.Pos(o.Pos()), fmt.Sprintf("continuation indent is %d columns, field depth is %d: continuation lines are not read as part of the field", n, W))
				}
			}
		} else {
			r.Und("WIDTH", "seqio.defaultGenBankIndent", "-", "constant not found")
		}
	}
	calendar(p, r, info)
	leapYear(p, r)
}

func calendar(p *core.Prog, r *core.Report, info *types.Info) {
	pk := p.Pkg(core.PkgSeqio)
	monthOf := func(e ast.Expr) (int64, bool) { return core.ConstInt(info, e) }
	lit := func(name string) *ast.CompositeLit {
		o, _ := pk.Types.Scope().Lookup(name).(*types.Var)
		if o == nil {
			return nil
		}
		init, _ := p.PkgVarInit(o)
		cl, _ := init.(*ast.CompositeLit)
		return cl
	}
	mm := lit("monthMap")
	if mm == nil {
		r.Und("CALENDAR", "seqio.monthMap|anchor", "-", "anchor-unresolved")
	} else {
		got := map[string]int64{}
		pos := map[string]token.Pos{}
		for _, el := range mm.Elts {
			kv, ok := el.(*ast.KeyValueExpr)
			if !ok {
				continue
			}
			k, ok1 := core.ConstString(info, kv.Key)
			v, ok2 := monthOf(kv.Value)
			if ok1 && ok2 {
				got[k] = v
				pos[k] = kv.Pos()
			}
		}
		for i, m := range months {
			key := "seqio.monthMap|month=" + m
			if v, ok := got[m]; !ok {
				r.Bad("CALENDAR", key, p.Pos(mm.Pos()), fmt.Sprintf("the writer's spelling %q is not a key: every date in that month is rejected on re-read", m))
			} else if v != int64(i+1) {
				r.Bad("CALENDAR", key, p.Pos(pos[m]), fmt.Sprintf("%q maps to month %d, not %d: dates written in that month are read back into another month", m, v, i+1))
			} else {
				r.Ok("CALENDAR", key, p.Pos(pos[m]), fmt.Sprintf("%q -> month %d", m, v))
			}
		}
		var others []string
		for k := range got {
			others = append(others, k)
		}
		sort.Strings(others)
		for _, k := range others {
			want := int64(-1)
			for i, m := range months {
				if strings.ToUpper(k) == m {
					want = int64(i + 1)
				}
			}
			var n int64
			if _, err := fmt.Sscanf(k, "%d", &n); err == nil && n >= 1 && n <= 12 && len(k) <= 2 {
				want = n
			}
			isWriter := false
			for _, m := range months {
				if k == m {
					isWriter = true
				}
			}
			if isWriter {
				continue
			}
			key := "seqio.monthMap|spelling=" + k
			switch {
			case want < 0:
				r.Note("CALENDAR", key, p.Pos(pos[k]), "unrecognised spelling (not checked)")
			case got[k] != want:
				r.Bad("CALENDAR", key, p.Pos(pos[k]), fmt.Sprintf("spelling %q maps to month %d, not %d", k, got[k], want))
			default:
				r.Ok("CALENDAR", key, p.Pos(pos[k]), fmt.Sprintf("%q -> month %d", k, want))
			}
		}
	}
	dm := lit("dayMap")
	if dm == nil {
		r.Und("CALENDAR", "seqio.dayMap|anchor", "-", "anchor-unresolved")
	} else {
		got := map[int64]int64{}
		for _, el := range dm.Elts {
			if kv, ok := el.(*ast.KeyValueExpr); ok {
				k, ok1 := monthOf(kv.Key)
				v, ok2 := core.ConstInt(info, kv.Value)
				if ok1 && ok2 {
					got[k] = v
				}
			}
		}
		for i := int64(1); i <= 12; i++ {
			key := fmt.Sprintf("seqio.dayMap|month=%d", i)
			if v, ok := got[i]; ok && v == monthDays[i-1] {
				r.Ok("CALENDAR", key, p.Pos(dm.Pos()), fmt.Sprintf("month %d has %d days", i, v))
			} else {
				r.Bad("CALENDAR", key, p.Pos(dm.Pos()), fmt.Sprintf("month %d is given %d days (Gregorian: %d; February is 28 before the leap adjustment): valid dates are rejected or invalid ones accepted", i, got[i], monthDays[i-1]))
			}
		}
		if len(got) != 12 {
			r.Bad("CALENDAR", "seqio.dayMap|size", p.Pos(dm.Pos()), fmt.Sprintf("dayMap has %d entries, not 12", len(got)))
		}
	}
}

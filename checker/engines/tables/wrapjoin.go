package tables

import (
	"fmt"
	"go/ast"
	"go/token"
	"go/types"
	"sort"
	"strings"

	"gtsverif/core"
)

// WrapJoin decides WRAP-JOIN (C01): a header field whose value the writer
// breaks at blanks (wrap.Space) is read back by joining the continuation lines
// with a blank; a value that is read as its first line only is written on one
// line. Otherwise a value longer than one line does not come back as it was
// written (KEYWORDS gets line breaks inside keywords, SOURCE an embedded
// newline, an ORGANISM name loses its tail to the taxonomy).
func WrapJoin(p *core.Prog, r *core.Report) {
	r.Rule("WRAP-JOIN", "for every label of GenBank.String whose value passes through wrap.Space, the reader's sub-parser for that label joins continuation lines with a blank (genbankFieldBodyParser(depth, ' ') or a loop that writes a blank between lines); a label whose reader keeps only the first line is written without wrapping", 2)
	info := p.Info(core.PkgSeqio)
	w := p.FuncDecl(core.PkgSeqio, "GenBank.String")
	if w == nil || w.Body == nil {
		r.Und("WRAP-JOIN", "seqio.GenBank.String|anchor", "-", "anchor-unresolved")
		return
	}
	r.Fn("seqio.GenBank.String")
	asg := core.Assigns(info, w.Body)
	// does a local's value pass through wrap.Space (following `x = AddPrefix(x, indent)` chains)?
	wrapped := func(o types.Object) bool {
		seen := map[types.Object]bool{}
		var visit func(o types.Object) bool
		visit = func(o types.Object) bool {
			if o == nil || seen[o] {
				return false
			}
			seen[o] = true
			for _, d := range asg[o] {
				if d.RHS == nil {
					continue
				}
				hit := false
				ast.Inspect(d.RHS, func(n ast.Node) bool {
					if c, ok := n.(*ast.CallExpr); ok && core.IsCallTo(info, c, "github.com/go-wrap/wrap.Space") {
						hit = true
					}
					if id, ok := n.(*ast.Ident); ok {
						if v, isVar := info.Uses[id].(*types.Var); isVar && v != o && visit(v) {
							hit = true
						}
					}
					return !hit
				})
				if hit {
					return true
				}
			}
			return false
		}
		return visit(o)
	}
	// labels: WriteString("LABEL   " + x + ...)
	labels := map[string]bool{}
	pos := map[string]token.Pos{}
	for _, c := range core.Calls(w.Body) {
		se, ok := ast.Unparen(c.Fun).(*ast.SelectorExpr)
		if !ok || se.Sel.Name != "WriteString" || len(c.Args) != 1 {
			continue
		}
		var parts []ast.Expr
		var flat func(e ast.Expr)
		flat = func(e ast.Expr) {
			if be, ok := ast.Unparen(e).(*ast.BinaryExpr); ok && be.Op == token.ADD {
				flat(be.X)
				flat(be.Y)
				return
			}
			parts = append(parts, e)
		}
		flat(c.Args[0])
		if len(parts) < 2 {
			continue
		}
		lit, ok := core.ConstString(info, parts[0])
		if !ok {
			continue
		}
		label := strings.TrimSpace(lit)
		if label == "" || strings.ToUpper(label) != label || strings.ContainsAny(label, " .") {
			continue
		}
		for _, e := range parts[1:] {
			if o := core.ObjOf(info, e); o != nil && wrapped(o) {
				labels[label] = true
				pos[label] = c.Pos()
			}
		}
	}
	var names []string
	for l := range labels {
		names = append(names, l)
	}
	sort.Strings(names)
	if len(names) == 0 {
		r.Und("WRAP-JOIN", "seqio.GenBank.String|labels", p.Pos(w.Pos()), "no wrapped field found in the writer")
		return
	}
	for _, label := range names {
		key := "seqio." + label
		// the reader: a function of seqio that passes the label to a field-name parser generator
		joiner, where := "", token.NoPos
		for _, fd := range p.FuncDecls(core.PkgSeqio) {
			if fd.Body == nil || fd == w {
				continue
			}
			for _, c := range core.Calls(fd.Body) {
				if len(c.Args) < 1 {
					continue
				}
				s, ok := core.ConstString(info, c.Args[0])
				if !ok || s != label {
					continue
				}
				callee := core.FuncID(core.Callee(info, c))
				switch {
				case strings.HasSuffix(callee, ".genbankGenericFieldParser") || strings.HasSuffix(callee, ".genbankGenericSubfieldParser"):
					joiner, where = "\n", c.Pos()
				case strings.HasSuffix(callee, ".genbankFieldNameParser") || strings.HasSuffix(callee, ".genbankSubfieldNameParser"):
					where = c.Pos()
					joiner = nextReader(info, fd, c)
				}
			}
		}
		switch joiner {
		case "":
			r.Und("WRAP-JOIN", key, p.Pos(pos[label]), "no reader sub-parser keyed on this label found")
		case " ":
			r.Ok("WRAP-JOIN", key, p.Pos(where), "wrapped at blanks by the writer, joined with a blank by the reader")
		case "first-line":
			r.Bad("WRAP-JOIN", key, p.Pos(pos[label]), fmt.Sprintf("the writer wraps the %s value at 67 columns but the reader keeps only its first line as the value (the rest is read as the next part of the record): a value longer than one line is not read back", label))
		default:
			r.Bad("WRAP-JOIN", key, p.Pos(where), fmt.Sprintf("the writer wraps the %s value at blanks but the reader joins the continuation lines with %q: a value longer than one line comes back with line breaks inside it", label, joiner))
		}
	}
}

// QualFormat decides QUAL-FORMAT (C01): QualifierIO.String writes the
// value-less form `/name` only for names registered as toggle qualifiers.
// The reader decides by the form it sees: a `/name` line for a name it does
// not know registers the name as a toggle for the rest of the process, and
// from then on every value written under that name is dropped.
func QualFormat(p *core.Prog, r *core.Report) {
	r.Rule("QUAL-FORMAT", "every return of seqio.QualifierIO.String whose text has no `=` sits in the switch clause for ToggleQualifier alone; all other qualifier types, the unknown ones included, are written as `/name=value` whatever the value is (also when it is empty)", 1)
	info := p.Info(core.PkgSeqio)
	fd := p.FuncDecl(core.PkgSeqio, "QualifierIO.String")
	key := "seqio.QualifierIO.String"
	if fd == nil || fd.Body == nil {
		r.Und("QUAL-FORMAT", key+"|anchor", "-", "anchor-unresolved")
		return
	}
	r.Fn(key)
	par := core.Parents(fd.Body)
	hasEq := func(e ast.Expr) bool {
		found := false
		ast.Inspect(e, func(n ast.Node) bool {
			if ex, ok := n.(ast.Expr); ok {
				if s, ok := core.ConstString(info, ex); ok && strings.Contains(s, "=") {
					found = true
				}
			}
			return !found
		})
		return found
	}
	n := 0
	for _, rs := range core.Returns(fd.Body) {
		if len(rs.Results) != 1 || hasEq(rs.Results[0]) {
			continue
		}
		n++
		ok := false
		for m := par[ast.Node(rs)]; m != nil; m = par[m] {
			if cc, isCC := m.(*ast.CaseClause); isCC {
				if len(cc.List) == 1 {
					if o := core.ObjOf(info, cc.List[0]); o != nil && o.Name() == "ToggleQualifier" {
						// directly in the clause, not under a further condition
						if par[ast.Node(rs)] == ast.Node(cc) {
							ok = true
						}
					}
				}
				break
			}
		}
		if !ok {
			r.Bad("QUAL-FORMAT", key, p.Pos(rs.Pos()), "`"+types.ExprString(rs.Results[0])+"` writes a qualifier without `=value` outside the toggle clause: the reader takes an unknown `/name` for a toggle and registers it, after which every value written under that name is lost (and a later `/name=\"v\"` line ends the feature table early)")
			return
		}
	}
	if n == 0 {
		r.Und("QUAL-FORMAT", key, p.Pos(fd.Pos()), "no value-less form found: toggle qualifiers cannot be written")
		return
	}
	r.Ok("QUAL-FORMAT", key, p.Pos(fd.Pos()), "the value-less form is written for toggle qualifiers only")
}

// nextReader: nameCall is `genbankFieldNameParser("LABEL", depth)`; the value is
// stored in a variable that a closure of fd calls. What is read right behind
// that call decides how the value's lines are put together: a body parser made
// with an explicit separator (returns it), or a single pars.Line ("first-line").
func nextReader(info *types.Info, fd *ast.FuncDecl, nameCall *ast.CallExpr) string {
	asg := core.Assigns(info, fd.Body)
	var nameVar types.Object
	for o, defs := range asg {
		for _, d := range defs {
			if d.RHS != nil && ast.Unparen(d.RHS) == ast.Expr(nameCall) {
				nameVar = o
			}
		}
	}
	if nameVar == nil {
		return "first-line"
	}
	sepOf := func(o types.Object) string {
		for _, d := range asg[o] {
			if c, ok := ast.Unparen(d.RHS).(*ast.CallExpr); ok && d.RHS != nil && strings.HasSuffix(core.FuncID(core.Callee(info, c)), ".genbankFieldBodyParser") && len(c.Args) == 2 {
				if v, ok := core.ConstInt(info, c.Args[1]); ok {
					return string(rune(v))
				}
			}
		}
		return ""
	}
	result := "first-line"
	par := core.Parents(fd.Body)
	for _, use := range core.Calls(fd.Body) {
		if core.ObjOf(info, use.Fun) != nameVar {
			continue
		}
		// the innermost block around the use, and the statement of that block that holds it
		var blk *ast.BlockStmt
		var inner ast.Node = use
		for m := par[ast.Node(use)]; m != nil; inner, m = m, par[m] {
			if b, ok := m.(*ast.BlockStmt); ok {
				blk = b
				break
			}
		}
		if blk == nil {
			continue
		}
		after := false
		for _, st := range blk.List {
			if ast.Node(st) == inner {
				after = true
				continue
			}
			if !after {
				continue
			}
			for _, c := range core.Calls(st) {
				if o := core.ObjOf(info, c.Fun); o != nil {
					if sep := sepOf(o); sep != "" {
						return sep
					}
				}
				if core.IsCallTo(info, c, "github.com/go-pars/pars.Line") {
					return "first-line"
				}
			}
		}
	}
	return result
}

package tables

import (
	"go/ast"
	"go/types"

	"gtsverif/core"
)

// LenDelegate decides LEN-DELEGATE: for every sequence type of gts and
// gts/seqio with both `Len() int` and `Bytes() []byte`, Len is the number of
// bytes Bytes returns, by construction: when Bytes hands out a field's Bytes()
// (or the field itself) Len is that field's Len() (or len of the field) and
// nothing else - no fallback, no branch. gts.Len prefers a type's own Len
// method, and Insert/Embed/Delete/Rotate move features by it while splicing
// Bytes(): a Len that reports a length the residues do not have (the length
// of a CONTIG region, say) moves features over residues that are not there.
func LenDelegate(p *core.Prog, r *core.Report) {
	r.Rule("LEN-DELEGATE", "a sequence type whose Bytes() hands out `recv.F.Bytes()` (or the byte-slice field `recv.F`) has Len() = `recv.F.Len()` (or `len(recv.F)`) as its only statement: the length the edit operations shift features by is the number of residues they splice", 1)
	for _, pkg := range []string{core.PkgGts, core.PkgSeqio} {
		info := p.Info(pkg)
		byRecv := map[string]map[string]*ast.FuncDecl{}
		for _, fd := range p.FuncDecls(pkg) {
			if fd.Recv == nil || fd.Body == nil || (fd.Name.Name != "Len" && fd.Name.Name != "Bytes") {
				continue
			}
			rn := core.RecvName(fd)
			if byRecv[rn] == nil {
				byRecv[rn] = map[string]*ast.FuncDecl{}
			}
			byRecv[rn][fd.Name.Name] = fd
		}
		for rn, ms := range byRecv {
			lenFd, bytesFd := ms["Len"], ms["Bytes"]
			if lenFd == nil || bytesFd == nil {
				continue
			}
			key := core.Short(pkg) + "." + rn
			// what does Bytes hand out?
			single := func(fd *ast.FuncDecl) ast.Expr {
				if len(fd.Body.List) != 1 {
					return nil
				}
				rs, ok := fd.Body.List[0].(*ast.ReturnStmt)
				if !ok || len(rs.Results) != 1 {
					return nil
				}
				return ast.Unparen(rs.Results[0])
			}
			recvOf := func(fd *ast.FuncDecl) types.Object {
				if len(fd.Recv.List) == 1 && len(fd.Recv.List[0].Names) == 1 {
					return info.Defs[fd.Recv.List[0].Names[0]]
				}
				return nil
			}
			// field path "F" of `recv.F`
			fieldOf := func(fd *ast.FuncDecl, e ast.Expr) string {
				se, ok := ast.Unparen(e).(*ast.SelectorExpr)
				if !ok || info.Selections[se] == nil {
					return ""
				}
				if id, ok := ast.Unparen(se.X).(*ast.Ident); ok && info.Uses[id] == recvOf(fd) && recvOf(fd) != nil {
					return se.Sel.Name
				}
				return ""
			}
			be := single(bytesFd)
			wantField, wantKind := "", ""
			if be != nil {
				if c, ok := be.(*ast.CallExpr); ok && len(c.Args) == 0 {
					if se, ok := ast.Unparen(c.Fun).(*ast.SelectorExpr); ok && se.Sel.Name == "Bytes" {
						if f := fieldOf(bytesFd, se.X); f != "" {
							wantField, wantKind = f, "method"
						}
					}
				} else if f := fieldOf(bytesFd, be); f != "" {
					wantField, wantKind = f, "field"
				}
			}
			if wantField == "" {
				r.Note("LEN-DELEGATE", key, p.Pos(bytesFd.Pos()), "Bytes() computes its result: not of the delegating shape (decided by the layout rules where applicable)")
				continue
			}
			r.Fn(key + ".Len")
			le := single(lenFd)
			ok := false
			if le != nil {
				if c, isCall := le.(*ast.CallExpr); isCall {
					switch wantKind {
					case "method":
						if se, isSel := ast.Unparen(c.Fun).(*ast.SelectorExpr); isSel && se.Sel.Name == "Len" && len(c.Args) == 0 && fieldOf(lenFd, se.X) == wantField {
							ok = true
						}
					case "field":
						if core.IsBuiltin(info, c, "len") && len(c.Args) == 1 && fieldOf(lenFd, c.Args[0]) == wantField {
							ok = true
						}
					}
				}
			}
			if ok {
				r.Ok("LEN-DELEGATE", key, p.Pos(lenFd.Pos()), "Len() is the length of exactly what Bytes() hands out (field "+wantField+")")
			} else {
				r.Bad("LEN-DELEGATE", key, p.Pos(lenFd.Pos()), "Bytes() hands out the residues of field "+wantField+" but Len() is not just their length: gts.Len prefers this method, and Insert/Embed/Delete/Rotate shift features by it while splicing Bytes(); a fallback to another length (a CONTIG region, a declared length) moves features over residues that do not exist")
			}
		}
	}
}

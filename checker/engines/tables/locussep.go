package tables

import (
	"fmt"
	"go/ast"
	"go/types"
	"regexp"
	"strconv"
	"strings"

	"gtsverif/core"
)

var verbRE = regexp.MustCompile(`%([-+# 0]*)(\*|\d+)?(\.(\*|\d+))?([a-zA-Z%])`)

// LocusSep decides LOCUS-SEP on the LOCUS line GenBank.String writes. The
// reader takes the line apart at white space (name, length, " bp", molecule,
// topology, division, date), so the writer must put at least one blank between
// any two fields whatever their values: in the format string every verb is
// followed by literal text that starts with a blank, or - where two verbs are
// adjacent - the left one is left-justified in a fixed width that is larger
// than anything its operand can print (a constant, or a type whose String
// method returns constants only). No width is computed at run time (`*`): a
// width derived from the data can reach zero, and name and length are written
// as one token.
func LocusSep(p *core.Prog, r *core.Report) {
	r.Rule("LOCUS-SEP", "in the format of the LOCUS line every field is separated from the next by a literal blank, or is left-justified in a constant width larger than the longest text its operand can print; no `*` width: the reader splits the line at white space, so fields that can touch make a record gts cannot read back", 1)
	info := p.Info(core.PkgSeqio)
	fd := p.FuncDecl(core.PkgSeqio, "GenBank.String")
	key := "seqio.GenBank.String|LOCUS"
	if fd == nil || fd.Body == nil {
		r.Und("LOCUS-SEP", key+"|anchor", "-", "anchor-unresolved")
		return
	}
	var call *ast.CallExpr
	for _, c := range core.Calls(fd.Body) {
		if !core.IsCallTo(info, c, "fmt.Sprintf", "fmt.Fprintf") {
			continue
		}
		for _, a := range c.Args {
			if s, ok := core.ConstString(info, a); ok && s == "LOCUS" {
				call = c
			}
		}
	}
	if call == nil {
		r.Und("LOCUS-SEP", key, p.Pos(fd.Pos()), "no Sprintf/Fprintf with the operand \"LOCUS\" found")
		return
	}
	r.Fn("seqio.GenBank.String")
	fi := 0
	if core.IsCallTo(info, call, "fmt.Fprintf") {
		fi = 1
	}
	format, ok := core.ConstString(info, call.Args[fi])
	if !ok {
		r.Und("LOCUS-SEP", key, p.Pos(call.Pos()), "the format is not a constant")
		return
	}
	ops := call.Args[fi+1:]
	// the longest text an operand can print, if bounded
	bounded := func(e ast.Expr) (int, bool) {
		if s, ok := core.ConstString(info, e); ok {
			return len(s), true
		}
		tv, ok := info.Types[e]
		if !ok || tv.Type == nil {
			return 0, false
		}
		named, ok := tv.Type.(*types.Named)
		if !ok || named.Obj().Pkg() == nil {
			return 0, false
		}
		sd := p.FuncDecl(named.Obj().Pkg().Path(), named.Obj().Name()+".String")
		if sd == nil || sd.Body == nil {
			return 0, false
		}
		sinfo := p.Info(named.Obj().Pkg().Path())
		max, all := 0, true
		n := 0
		for _, rs := range core.Returns(sd.Body) {
			n++
			if len(rs.Results) != 1 {
				all = false
				continue
			}
			s, ok := core.ConstString(sinfo, rs.Results[0])
			if !ok {
				all = false
				continue
			}
			if len(s) > max {
				max = len(s)
			}
		}
		return max, all && n > 0
	}
	ms := verbRE.FindAllStringSubmatchIndex(format, -1)
	opi := 0
	var bad []string
	for k, m := range ms {
		verb := format[m[0]:m[1]]
		if format[m[10]:m[11]] == "%" {
			continue
		}
		flags := format[m[2]:m[3]]
		width := ""
		if m[4] >= 0 {
			width = format[m[4]:m[5]]
		}
		if width == "*" || (m[8] >= 0 && format[m[8]:m[9]] == "*") {
			bad = append(bad, fmt.Sprintf("`%s` takes its width from the data", verb))
			opi++ // the width operand
		}
		var operand ast.Expr
		if opi < len(ops) {
			operand = ops[opi]
		}
		opi++
		// what follows the verb?
		end := len(format)
		if k+1 < len(ms) {
			end = ms[k+1][0]
		}
		lit := format[m[1]:end]
		switch {
		case k+1 == len(ms) && lit == "":
			// last field
		case lit != "" && (lit[0] == ' ' || lit[0] == '\t' || lit[0] == '\n' || lit[0] == '\r'):
			// separated by a literal blank
		case lit == "":
			w, err := strconv.Atoi(width)
			max, isB := 0, false
			if operand != nil {
				max, isB = bounded(operand)
			}
			if err != nil || !strings.Contains(flags, "-") || !isB || max >= w {
				what := "an operand of unbounded length"
				if operand != nil {
					what = "`" + types.ExprString(operand) + "`"
				}
				bad = append(bad, fmt.Sprintf("`%s` (%s) is followed directly by the next field with no blank the values cannot use up", verb, what))
			}
		default:
			bad = append(bad, fmt.Sprintf("`%s` is followed by %q, which does not start with a blank", verb, lit))
		}
	}
	if len(bad) > 0 {
		r.Bad("LOCUS-SEP", key, p.Pos(call.Pos()), strings.Join(bad, "; ")+": for a long enough value two fields of the LOCUS line are written as one token and the record gts wrote is rejected by its own reader (and every record behind it in the stream is lost)")
	} else {
		r.Ok("LOCUS-SEP", key, p.Pos(call.Pos()), fmt.Sprintf("%d fields, each separated from the next whatever their values", len(ms)))
	}
}

package tables

import (
	"fmt"
	"go/ast"
	"go/token"
	"go/types"
	"regexp"
	"sort"

	"gtsverif/core"
	"gtsverif/engines/orders"
)

var intVerb = regexp.MustCompile(`^%(\d+)d$`)

type layoutFn struct {
	pkg, name string
	fd        *ast.FuncDecl
	consts    map[int64]token.Pos // integer constants > 1 (literals and folded named constants)
	verbs     []int64
	verbPos   token.Pos
	steps     []int64 // loop steps (i += c), outermost first
	bounds    []int64 // constant loop bounds (j < c), outermost first
}

func collectLayout(p *core.Prog, pkg, name string) *layoutFn {
	fd := p.FuncDecl(pkg, name)
	if fd == nil || fd.Body == nil {
		return nil
	}
	info := p.Info(pkg)
	lf := &layoutFn{pkg: pkg, name: name, fd: fd, consts: map[int64]token.Pos{}}
	ast.Inspect(fd.Body, func(n ast.Node) bool {
		switch x := n.(type) {
		case *ast.BasicLit:
			if x.Kind == token.INT {
				if v, ok := core.ConstInt(info, x); ok && v > 1 {
					if _, seen := lf.consts[v]; !seen {
						lf.consts[v] = x.Pos()
					}
				}
			}
			if x.Kind == token.STRING {
				if s, ok := core.ConstString(info, x); ok {
					if m := intVerb.FindStringSubmatch(s); m != nil {
						var w int64
						fmt.Sscan(m[1], &w)
						lf.verbs = append(lf.verbs, w)
						lf.verbPos = x.Pos()
					}
				}
			}
		case *ast.Ident:
			if c, ok := info.Uses[x].(*types.Const); ok && c.Pkg() != nil && c.Pkg().Path() == pkg {
				if b, isBasic := c.Type().Underlying().(*types.Basic); !isBasic || (b.Kind() != types.Int && b.Kind() != types.UntypedInt) {
					return true // byte/rune constants (the space byte) are characters, not layout numbers
				}
				if v, ok := core.ConstInt(info, x); ok && v > 1 {
					if _, seen := lf.consts[v]; !seen {
						lf.consts[v] = x.Pos()
					}
				}
			}
		case *ast.ForStmt:
			if as, ok := x.Post.(*ast.AssignStmt); ok && as.Tok == token.ADD_ASSIGN && len(as.Rhs) == 1 {
				if v, ok := core.ConstInt(info, as.Rhs[0]); ok {
					lf.steps = append(lf.steps, v)
				}
			} else if _, ok := x.Post.(*ast.IncDecStmt); ok {
				lf.steps = append(lf.steps, 1)
			}
			// constant bound in the condition: `j < C && ...` or `k < C`
			var findBound func(e ast.Expr)
			findBound = func(e ast.Expr) {
				be, ok := ast.Unparen(e).(*ast.BinaryExpr)
				if !ok {
					return
				}
				if be.Op == token.LAND {
					findBound(be.X)
					findBound(be.Y)
					return
				}
				if be.Op == token.LSS {
					if v, ok := core.ConstInt(info, be.Y); ok {
						lf.bounds = append(lf.bounds, v)
					}
				}
			}
			if x.Cond != nil {
				findBound(x.Cond)
			}
		}
		return true
	})
	return lf
}

// C16 decides LAYOUT (agreement of the layout parameters across the functions
// that embody them) and LAYOUT-ARITH (the closed-form size arithmetic, by
// finite-quotient evaluation).
func C16(p *core.Prog, r *core.Report) {
	r.Rule("LAYOUT", "the ORIGIN layout parameters agree across NewOrigin, (*Origin).Bytes, toOriginLength, fromOriginLength, validateOrigin and slowGenBankOriginParser: index width W (the %Wd verbs), group size G and residues per line L (loop steps and bounds), bytes per full line B = W + (L/G)(G+1) + 1; every integer constant > 1 in each function is one of W, W+1, W+3, G, G+1, L, B", 10)
	r.Rule("LAYOUT-ARITH", "toOriginLength(n) equals the layout's byte count and fromOriginLength(toOriginLength(n)) = n for every residue class of n modulo L (three quotients each); exact because each function uses its parameter only as the dividend of / and % by L resp. B; (Origin).Len reports the residue count of undecoded and decoded buffers", 3)
	r.NotDecided = append(r.NotDecided, "the residues recovered by (*Origin).Bytes", "equivalence of the fast and the slow validation path on all blocks", "NewOrigin's byte-by-byte output")
	fns := map[string]*layoutFn{}
	for _, n := range []struct{ pkg, name string }{
		{core.PkgSeqio, "NewOrigin"}, {core.PkgSeqio, "Origin.Bytes"}, {core.PkgSeqio, "toOriginLength"},
		{core.PkgSeqio, "fromOriginLength"}, {core.PkgSeqio, "validateOrigin"}, {core.PkgSeqio, "slowGenBankOriginParser"},
	} {
		lf := collectLayout(p, n.pkg, n.name)
		if lf == nil {
			r.Und("LAYOUT", "seqio."+n.name+"|anchor", "-", "anchor-unresolved")
			return
		}
		r.Fn("seqio." + n.name)
		fns[n.name] = lf
	}
	// W from the writer's verb
	no := fns["NewOrigin"]
	if len(no.verbs) != 1 || len(no.steps) < 2 {
		r.Und("LAYOUT", "seqio.NewOrigin|shape", p.Pos(no.fd.Pos()), "NewOrigin does not have one %Nd verb and two stepped loops")
		return
	}
	W, L, G := no.verbs[0], no.steps[0], no.steps[1]
	if G <= 0 || L%G != 0 {
		r.Bad("LAYOUT", "seqio.NewOrigin|groups", p.Pos(no.fd.Pos()), fmt.Sprintf("residues per line (%d) is not a multiple of the group size (%d)", L, G))
		return
	}
	B := W + (L/G)*(G+1) + 1
	r.Extra["layout_parameters"] = map[string]int64{"W": W, "G": G, "L": L, "B": B}
	allowed := map[int64]string{W: "W", W + 1: "W+1", W + 3: "W+3", G: "G", G + 1: "G+1", L: "L", B: "B"}
	names := make([]string, 0, len(fns))
	for n := range fns {
		names = append(names, n)
	}
	sort.Strings(names)
	for _, n := range names {
		lf := fns[n]
		key := "seqio." + n
		// verbs
		for _, v := range lf.verbs {
			if v == W {
				r.Ok("LAYOUT", key+"|index-width", p.Pos(lf.verbPos), fmt.Sprintf("index printed/expected with %%%dd", v))
			} else {
				r.Bad("LAYOUT", key+"|index-width", p.Pos(lf.verbPos), fmt.Sprintf("index width %d here, %d in NewOrigin: blocks written by gts fail this validator (or are mis-measured)", v, W))
			}
		}
		// loops: the line and group loops are the ones that step by more than one (a helper that pads the
		// index, inlined into the walker, adds a loop over single bytes bounded by the index width)
		var steps, bounds []int64
		for _, st := range lf.steps {
			if st > 1 {
				steps = append(steps, st)
			}
		}
		for _, b := range lf.bounds {
			if b != W {
				bounds = append(bounds, b)
			}
		}
		if len(lf.steps) >= 2 && len(steps) >= 2 {
			okL := steps[0] == L && steps[1] == G
			okB := true
			for i, b := range bounds {
				switch i {
				case 0:
					okB = okB && b == L
				case 1:
					okB = okB && b == G
				}
			}
			if okL && okB {
				r.Ok("LAYOUT", key+"|loops", p.Pos(lf.fd.Pos()), fmt.Sprintf("lines of %d residues in groups of %d", L, G))
			} else {
				r.Bad("LAYOUT", key+"|loops", p.Pos(lf.fd.Pos()), fmt.Sprintf("loop steps %v / bounds %v disagree with NewOrigin's lines of %d in groups of %d", lf.steps, lf.bounds, L, G))
			}
		} else if n == "NewOrigin" || n == "Origin.Bytes" || n == "validateOrigin" || n == "slowGenBankOriginParser" {
			// the four functions that walk a block must do so by the layout's columns: a decoder that
			// recognises the index or the group separators by their characters (TrimLeft with a cut set,
			// Fields, Split) takes residues that look like them for layout
			r.Und("LAYOUT", key+"|loops", p.Pos(lf.fd.Pos()), "the block is not walked by two stepped loops (lines of L residues, groups of G): the column layout - the only thing that tells an index digit or a separating blank from a residue - is not what this function goes by")
		}
		// constants
		var bad []int64
		for c := range lf.consts {
			if _, ok := allowed[c]; !ok {
				bad = append(bad, c)
			}
		}
		sort.Slice(bad, func(i, j int) bool { return bad[i] < bad[j] })
		if len(bad) == 0 {
			r.Ok("LAYOUT", key+"|constants", p.Pos(lf.fd.Pos()), "every integer constant is a layout parameter")
		} else {
			r.Bad("LAYOUT", key+"|constants", p.Pos(lf.consts[bad[0]]), fmt.Sprintf("constant(s) %v are not among the layout parameters W=%d W+1=%d W+3=%d G=%d G+1=%d L=%d B=%d", bad, W, W+1, W+3, G, G+1, L, B))
		}
	}
	// closed forms by finite-quotient evaluation
	oracle := func(n int64) int64 {
		full, m := n/L, n%L
		b := full * B
		if m > 0 {
			b += W + (m/G)*(G+1) + 1
			if m%G > 0 {
				b += 1 + m%G
			}
		}
		return b
	}
	if ok, why := orders.QuotientUses(p, core.PkgSeqio, "toOriginLength", 0, []int64{L}); !ok {
		r.Und("LAYOUT-ARITH", "seqio.toOriginLength", p.Pos(fns["toOriginLength"].fd.Pos()), "cannot reduce to residues modulo L: "+why)
	} else {
		bad := ""
		for n := int64(0); n < 3*L && bad == ""; n++ {
			res, err := orders.EvalInts(p, core.PkgSeqio, "toOriginLength", n)
			if err != nil {
				r.Und("LAYOUT-ARITH", "seqio.toOriginLength", p.Pos(fns["toOriginLength"].fd.Pos()), err.Error())
				bad = "-"
				break
			}
			if res.Int != oracle(n) {
				bad = fmt.Sprintf("for %d residues (n mod %d = %d) the block is declared %d bytes long, the layout has %d", n, L, n%L, res.Int, oracle(n))
			}
		}
		if bad == "" {
			r.Ok("LAYOUT-ARITH", "seqio.toOriginLength", p.Pos(fns["toOriginLength"].fd.Pos()), fmt.Sprintf("equals the layout's byte count for all %d residue classes and 3 quotients", L))
		} else if bad != "-" {
			r.Bad("LAYOUT-ARITH", "seqio.toOriginLength", p.Pos(fns["toOriginLength"].fd.Pos()), bad+": sequences of those lengths are truncated or rejected")
		}
	}
	if ok, why := orders.QuotientUses(p, core.PkgSeqio, "fromOriginLength", 0, []int64{B}); !ok {
		r.Und("LAYOUT-ARITH", "seqio.fromOriginLength", p.Pos(fns["fromOriginLength"].fd.Pos()), "cannot reduce to residues modulo B: "+why)
	} else {
		bad := ""
		for n := int64(0); n < 3*L && bad == ""; n++ {
			res, err := orders.EvalInts(p, core.PkgSeqio, "fromOriginLength", oracle(n))
			if err != nil {
				r.Und("LAYOUT-ARITH", "seqio.fromOriginLength", p.Pos(fns["fromOriginLength"].fd.Pos()), err.Error())
				bad = "-"
				break
			}
			if res.Int != n {
				bad = fmt.Sprintf("a block of %d bytes holds %d residues but fromOriginLength reports %d", oracle(n), n, res.Int)
			}
		}
		if bad == "" {
			r.Ok("LAYOUT-ARITH", "seqio.fromOriginLength", p.Pos(fns["fromOriginLength"].fd.Pos()), fmt.Sprintf("inverts the layout's byte count for all %d residue classes and 3 quotients", L))
		} else if bad != "-" {
			r.Bad("LAYOUT-ARITH", "seqio.fromOriginLength", p.Pos(fns["fromOriginLength"].fd.Pos()), bad+": Len() and Bytes() disagree with what was written")
		}
	}
	// LOOP-BOUND: indices of residues are compared with the residue count strictly
	r.Rule("LOOP-BOUND", "in the ORIGIN writer, decoder and readers every loop condition that compares a residue index (a sum of loop variables) with the residue count is the strict `index < count`: an inclusive bound makes the reader expect, or the writer emit, one group or residue more than the other side", 6)
	for _, name := range names2(fns) {
		lf := fns[name]
		info := p.Info(core.PkgSeqio)
		var loopVars = map[types.Object]bool{}
		k := 0
		ast.Inspect(lf.fd.Body, func(n ast.Node) bool {
			fs, ok := n.(*ast.ForStmt)
			if !ok {
				return true
			}
			if in, ok := fs.Init.(*ast.AssignStmt); ok {
				for _, l := range in.Lhs {
					if o := core.ObjOf(info, l); o != nil {
						loopVars[o] = true
					}
				}
			}
			if fs.Cond == nil {
				return true
			}
			core.Facts(fs.Cond, true, func(atom ast.Expr, val bool) {
				be, ok := ast.Unparen(atom).(*ast.BinaryExpr)
				if !ok || !val {
					return
				}
				isIdx := func(e ast.Expr) bool {
					okAll, any := true, false
					ast.Inspect(e, func(m ast.Node) bool {
						if m == nil {
							return true
						}
						switch x := m.(type) {
						case *ast.Ident:
							if loopVars[core.ObjOf(info, x)] {
								any = true
							} else {
								okAll = false
							}
						case *ast.BinaryExpr:
							if x.Op != token.ADD {
								okAll = false
							}
						case *ast.ParenExpr:
						default:
							okAll = false
						}
						return true
					})
					return okAll && any
				}
				isCount := func(e ast.Expr) bool {
					if _, isC := core.ConstInt(info, e); isC {
						return false
					}
					switch x := ast.Unparen(e).(type) {
					case *ast.Ident:
						return !loopVars[core.ObjOf(info, x)]
					case *ast.CallExpr:
						return core.IsBuiltin(info, x, "len")
					}
					return false
				}
				var op token.Token
				switch {
				case isIdx(be.X) && isCount(be.Y):
					op = be.Op
				case isIdx(be.Y) && isCount(be.X):
					switch be.Op {
					case token.GTR:
						op = token.LSS
					case token.GEQ:
						op = token.LEQ
					default:
						op = token.ILLEGAL
					}
				default:
					return
				}
				k++
				key := fmt.Sprintf("seqio.%s|loop-bound#%d", name, k)
				if op == token.LSS {
					r.Ok("LOOP-BOUND", key, p.Pos(atom.Pos()), "`"+types.ExprString(atom)+"`")
				} else {
					r.Bad("LOOP-BOUND", key, p.Pos(atom.Pos()), "`"+types.ExprString(atom)+"` is not the strict `index < count`: this side of the layout walks one group or residue further than the other (a block whose length is a multiple of the group size is rejected or over-read)")
				}
			})
			return true
		})
	}
	// GUARD-MIN: (*Origin).Bytes treats a block as empty exactly when it is shorter than the smallest non-empty block (W+3 bytes)
	originParsed(p, r, fns["Origin.Bytes"])
	r.Rule("GUARD-MIN", "(*Origin).Bytes returns no residues exactly for blocks shorter than the smallest non-empty block, W+3 bytes (index, space, one residue, newline)", 1)
	if ob := fns["Origin.Bytes"]; ob != nil {
		info := p.Info(core.PkgSeqio)
		found := false
		ast.Inspect(ob.fd.Body, func(n ast.Node) bool {
			is, ok := n.(*ast.IfStmt)
			if !ok || found {
				return true
			}
			be, ok := ast.Unparen(is.Cond).(*ast.BinaryExpr)
			if !ok {
				return true
			}
			lc, isLen := ast.Unparen(be.X).(*ast.CallExpr)
			k, isConst := core.ConstInt(info, be.Y)
			if !isLen || !core.IsBuiltin(info, lc, "len") || !isConst || len(is.Body.List) != 1 {
				return true
			}
			rs, isRet := is.Body.List[0].(*ast.ReturnStmt)
			if !isRet || len(rs.Results) != 1 || !core.IsNil(info, rs.Results[0]) {
				return true
			}
			found = true
			okGuard := (be.Op == token.LSS && k == W+3) || (be.Op == token.LEQ && k == W+2)
			if okGuard {
				r.Ok("GUARD-MIN", "seqio.Origin.Bytes", p.Pos(is.Pos()), fmt.Sprintf("empty exactly below %d bytes", W+3))
			} else {
				r.Bad("GUARD-MIN", "seqio.Origin.Bytes", p.Pos(is.Pos()), fmt.Sprintf("the emptiness guard `%s` does not coincide with 'shorter than the smallest non-empty block (%d bytes)': a sequence of exactly one residue decodes to nothing (or a shorter, malformed block is indexed)", types.ExprString(is.Cond), W+3))
			}
			return true
		})
		if !found {
			r.Und("GUARD-MIN", "seqio.Origin.Bytes", p.Pos(ob.fd.Pos()), "no `len(buffer) < k { return nil }` guard found")
		}
	}
	// SEPARATORS: the bytes the validators compare positions against are exactly the bytes the writer stores
	r.Rule("SEPARATORS", "the fast validator compares block positions against exactly the separator bytes NewOrigin stores (space and newline); the line-wise validator against the space only (lines are split by the scanner)", 2)
	{
		info := p.Info(core.PkgSeqio)
		byteConsts := func(fd *ast.FuncDecl, stores bool) map[int64]bool {
			out := map[int64]bool{}
			ast.Inspect(fd.Body, func(n ast.Node) bool {
				if stores {
					if as, ok := n.(*ast.AssignStmt); ok && len(as.Lhs) == 1 && len(as.Rhs) == 1 {
						if _, isIdx := ast.Unparen(as.Lhs[0]).(*ast.IndexExpr); isIdx {
							if v, ok := core.ConstInt(info, as.Rhs[0]); ok {
								out[v] = true
							}
						}
					}
					return true
				}
				if be, ok := n.(*ast.BinaryExpr); ok && (be.Op == token.NEQ || be.Op == token.EQL) {
					_, lIdx := ast.Unparen(be.X).(*ast.IndexExpr)
					lid := core.ObjOf(info, be.X)
					if v, ok := core.ConstInt(info, be.Y); ok && (lIdx || (lid != nil && isByte(lid.Type()))) {
						out[v] = true
					}
				}
				return true
			})
			return out
		}
		written := byteConsts(fns["NewOrigin"].fd, true)
		show := func(m map[int64]bool) string {
			var ks []int64
			for k := range m {
				ks = append(ks, k)
			}
			sort.Slice(ks, func(i, j int) bool { return ks[i] < ks[j] })
			return fmt.Sprint(ks)
		}
		fast := byteConsts(fns["validateOrigin"].fd, false)
		if show(fast) == show(written) {
			r.Ok("SEPARATORS", "seqio.validateOrigin", p.Pos(fns["validateOrigin"].fd.Pos()), "compares against the bytes the writer stores: "+show(written))
		} else {
			r.Bad("SEPARATORS", "seqio.validateOrigin", p.Pos(fns["validateOrigin"].fd.Pos()), fmt.Sprintf("the fast validator compares positions against bytes %s but the writer stores %s: it accepts (or rejects) blocks the writer never produces, e.g. CRLF line ends, and fast and slow path disagree", show(fast), show(written)))
		}
		slow := byteConsts(fns["slowGenBankOriginParser"].fd, false)
		wantSlow := map[int64]bool{}
		for k := range written {
			if k != 10 {
				wantSlow[k] = true
			}
		}
		if show(slow) == show(wantSlow) {
			r.Ok("SEPARATORS", "seqio.slowGenBankOriginParser", p.Pos(fns["slowGenBankOriginParser"].fd.Pos()), "compares against the writer's in-line separators: "+show(wantSlow))
		} else {
			r.Bad("SEPARATORS", "seqio.slowGenBankOriginParser", p.Pos(fns["slowGenBankOriginParser"].fd.Pos()), fmt.Sprintf("the line-wise validator compares against %s, the writer's in-line separators are %s", show(slow), show(wantSlow)))
		}
	}
	// Origin.Len: the length reported without decoding equals the number of residues
	lenFn := p.FuncDecl(core.PkgSeqio, "Origin.Len")
	if lenFn == nil {
		r.Und("LAYOUT-ARITH", "seqio.Origin.Len|anchor", "-", "anchor-unresolved")
	} else {
		r.Fn("seqio.Origin.Len")
		bad := ""
		for n := int64(0); n < 3*L && bad == ""; n++ {
			res, err := orders.EvalMethodOnStruct(p, core.PkgSeqio, "Origin.Len", map[string]int64{"Buffer": oracle(n)}, map[string]bool{"Parsed": false})
			if err != nil {
				r.Und("LAYOUT-ARITH", "seqio.Origin.Len", p.Pos(lenFn.Pos()), err.Error())
				bad = "-"
				break
			}
			if res.Int != n {
				bad = fmt.Sprintf("an undecoded block of %d residues (%d bytes) reports length %d", n, oracle(n), res.Int)
			}
			res, err = orders.EvalMethodOnStruct(p, core.PkgSeqio, "Origin.Len", map[string]int64{"Buffer": n}, map[string]bool{"Parsed": true})
			if err == nil && res.Int != n && bad == "" {
				bad = fmt.Sprintf("a decoded buffer of %d residues reports length %d", n, res.Int)
			}
		}
		if bad == "" {
			r.Ok("LAYOUT-ARITH", "seqio.Origin.Len", p.Pos(lenFn.Pos()), fmt.Sprintf("Len() equals the residue count for undecoded blocks of all %d residue classes x 3 quotients and for decoded buffers", L))
		} else if bad != "-" {
			r.Bad("LAYOUT-ARITH", "seqio.Origin.Len", p.Pos(lenFn.Pos()), bad+": Len() and Bytes() disagree, so edits shift features by the wrong amount")
		}
	}
}

// leapYear decides the Gregorian rule by finite-quotient evaluation (C01 CALENDAR).
func leapYear(p *core.Prog, r *core.Report) {
	fd := p.FuncDecl(core.PkgSeqio, "isLeapYear")
	if fd == nil {
		r.Und("CALENDAR", "seqio.isLeapYear|anchor", "-", "anchor-unresolved")
		return
	}
	r.Fn("seqio.isLeapYear")
	if ok, why := orders.QuotientUses(p, core.PkgSeqio, "isLeapYear", 0, []int64{4, 100, 400}); !ok {
		r.Und("CALENDAR", "seqio.isLeapYear", p.Pos(fd.Pos()), "cannot reduce to residues modulo 400: "+why)
		return
	}
	for y := int64(0); y < 400; y++ {
		res, err := orders.EvalInts(p, core.PkgSeqio, "isLeapYear", y)
		if err != nil || !res.IsB {
			r.Und("CALENDAR", "seqio.isLeapYear", p.Pos(fd.Pos()), fmt.Sprint(err))
			return
		}
		want := y%4 == 0 && (y%100 != 0 || y%400 == 0)
		if res.Bool != want {
			r.Bad("CALENDAR", "seqio.isLeapYear", p.Pos(fd.Pos()), fmt.Sprintf("years congruent to %d modulo 400 are classified leap=%v; the Gregorian rule says %v: 29 February of such a year is wrongly rejected or accepted", y, res.Bool, want))
			return
		}
	}
	r.Ok("CALENDAR", "seqio.isLeapYear", p.Pos(fd.Pos()), "Gregorian rule for all 400 residues of the year")
}

// OriginLen is the Len()/layout agreement alone (used by C02: Insert and Embed
// move host features by Len(guest), which for a scanned GenBank guest is
// (Origin).Len of the undecoded block).
func OriginLen(p *core.Prog, r *core.Report) {
	tmp := core.NewReport(r.Property)
	C16(p, tmp)
	r.Rule("LEN", "Len(guest) - the amount Insert/Embed move host features by - equals the guest's residue count also for an undecoded GenBank ORIGIN block ((Origin).Len against the layout, all residue classes)", 1)
	for _, o := range tmp.Obs {
		if o.Key == "LAYOUT-ARITH|seqio.Origin.Len" || o.Key == "LAYOUT-ARITH|seqio.fromOriginLength" {
			o.Rule = "LEN"
			o.Key = "LEN|" + o.Key[len("LAYOUT-ARITH|"):]
			r.Obs = append(r.Obs, o)
		}
	}
	r.Fn("seqio.Origin.Len")
}

func isByte(t types.Type) bool {
	b, ok := t.Underlying().(*types.Basic)
	return ok && (b.Kind() == types.Byte || b.Kind() == types.Uint8)
}

func names2(m map[string]*layoutFn) []string {
	var out []string
	for n := range m {
		out = append(out, n)
	}
	sort.Strings(out)
	return out
}

// originParsed decides ORIGIN-PARSED on (*Origin).Bytes. Buffer holds the
// formatted block until the first call and the decoded residues afterwards
// (Parsed). Everything that reads Buffer as a block - the minimum-length guard,
// fromOriginLength, the decoding loops - belongs to the not-yet-parsed state:
// on every path on which Parsed has not been found false, the method returns
// o.Buffer and nothing else. A block guard hoisted in front of the state test
// is applied to residues: a record of 1..11 residues decodes correctly once
// and reads as empty from the second call on.
func originParsed(p *core.Prog, r *core.Report, ob *layoutFn) {
	r.Rule("ORIGIN-PARSED", "in (*Origin).Bytes every return reached without the fact `Parsed == false` on its path returns the receiver's Buffer as it is: the block-length guard and the decoder apply to the formatted state only", 1)
	key := "seqio.Origin.Bytes"
	if ob == nil || ob.fd == nil || ob.fd.Recv == nil || len(ob.fd.Recv.List) != 1 || len(ob.fd.Recv.List[0].Names) != 1 {
		r.Und("ORIGIN-PARSED", key+"|anchor", "-", "anchor-unresolved")
		return
	}
	info := p.Info(core.PkgSeqio)
	recv := info.Defs[ob.fd.Recv.List[0].Names[0]]
	isField := func(e ast.Expr, name string) bool {
		se, ok := ast.Unparen(e).(*ast.SelectorExpr)
		return ok && se.Sel.Name == name && core.ObjOf(info, se.X) == recv
	}
	fl := core.NewFlow(info, ob.fd.Body)
	var bad *ast.ReturnStmt
	stored := map[types.Object]bool{} // locals assigned to o.Buffer: handing one out hands out the buffer
	ast.Inspect(ob.fd.Body, func(n ast.Node) bool {
		if as, ok := n.(*ast.AssignStmt); ok && len(as.Lhs) == len(as.Rhs) {
			for i, l := range as.Lhs {
				if isField(l, "Buffer") {
					if o := core.ObjOf(info, as.Rhs[i]); o != nil {
						stored[o] = true
					}
				}
			}
		}
		return true
	})
	// state: 0 = Parsed may be true, 1 = Parsed known false (the formatted state), 2 = the buffer was just replaced
	core.Scan(fl, fl.Entry(), 0, core.Stepper[int]{
		Node: func(s int, n ast.Node) (int, bool) {
			if as, ok := n.(*ast.AssignStmt); ok {
				for i, l := range as.Lhs {
					if isField(l, "Buffer") && i < len(as.Rhs) && s == 1 {
						if o := core.ObjOf(info, as.Rhs[i]); o != nil && stored[o] {
							s = 2
						}
					}
					if isField(l, "Parsed") && i < len(as.Rhs) {
						if tv, has := info.Types[as.Rhs[i]]; has && tv.Value != nil && tv.Value.String() == "true" {
							if s == 2 {
								return 3, false // decoded on this very path: the local and o.Buffer are the same slice
							}
							return 0, false
						}
					}
				}
			}
			if rs, ok := n.(*ast.ReturnStmt); ok {
				isBuf := len(rs.Results) == 1 && isField(rs.Results[0], "Buffer")
				if s == 3 && len(rs.Results) == 1 && stored[core.ObjOf(info, rs.Results[0])] {
					isBuf = true
				}
				if (s == 0 || s == 3) && !isBuf && bad == nil {
					bad = rs
				}
				return s, true
			}
			return s, false
		},
		Edge: func(s int, cond ast.Expr, taken bool) int {
			core.Facts(cond, taken, func(atom ast.Expr, val bool) {
				if isField(atom, "Parsed") && !val && s == 0 {
					s = 1
				}
			})
			return s
		},
	})
	if bad != nil {
		r.Bad("ORIGIN-PARSED", key, p.Pos(bad.Pos()), "a return that does not hand out o.Buffer is reachable while Parsed may be true: the test in front of it reads the decoded residues as if they were a formatted block (a record of fewer than 12 residues decodes once and is empty from the second Bytes() on)")
	} else {
		r.Ok("ORIGIN-PARSED", key, p.Pos(ob.fd.Pos()), "block-level tests and the decoder run only where Parsed is false")
	}
}

package tables

import (
	"fmt"
	"go/ast"
	"go/constant"
	"go/token"
	"go/types"

	"gtsverif/core"
)

// FOLD-BYTEWISE. Search and Match look for hits in a case-folded copy of the
// residues and report the offsets they find as offsets of the sequence (and
// Search adds the length of the folded query). That is right only if the fold
// keeps every byte at its index. bytes.ToLower, bytes.ToUpper, bytes.Map and
// the strings versions fold rune by rune: an invalid UTF-8 byte becomes the
// three bytes of U+FFFD and a few letters change width, so every later offset
// is shifted and a hit can lie beyond the end of the sequence.
//
// Accepted fold of an operand: a slice q defined once as make([]byte, len(src))
// and filled by one loop `for i, c := range src { ...; q[i] = E }`, either in
// the function itself or in a repository function it calls with src; the
// per-byte map of that loop is evaluated for all 256 byte values and must be
// the ASCII lower-casing ('A'..'Z' -> +32, every other byte itself).

// byteLoop describes a recognised fill loop.
type byteLoop struct {
	src  ast.Expr // the ranged operand
	loop *ast.RangeStmt
	elem types.Object // the loop's value variable
	out  ast.Expr     // the expression stored into q[i]
}

// fillLoopOf finds the loop that fills the slice variable q inside scope.
func fillLoopOf(info *types.Info, scope ast.Node, q types.Object) (*byteLoop, string) {
	asg := core.Assigns(info, scope)
	defs := asg[q]
	if len(defs) != 1 || defs[0].RHS == nil {
		return nil, "the folded copy is not defined exactly once"
	}
	mk, ok := ast.Unparen(defs[0].RHS).(*ast.CallExpr)
	if !ok || !core.IsBuiltin(info, mk, "make") || len(mk.Args) != 2 {
		return nil, "the folded copy is not made with make([]byte, len(src))"
	}
	lc, ok := ast.Unparen(mk.Args[1]).(*ast.CallExpr)
	if !ok || !core.IsBuiltin(info, lc, "len") || len(lc.Args) != 1 {
		return nil, "the folded copy is not as long as its source"
	}
	srcObj := core.ObjOf(info, lc.Args[0])
	if srcObj == nil {
		return nil, "the source of the folded copy is not a variable"
	}
	var found *byteLoop
	why := "no loop fills the folded copy element by element"
	stores := 0
	ast.Inspect(scope, func(n ast.Node) bool {
		switch x := n.(type) {
		case *ast.AssignStmt:
			for _, l := range x.Lhs {
				if ix, ok := ast.Unparen(l).(*ast.IndexExpr); ok && core.ObjOf(info, ix.X) == q {
					stores++
				}
			}
		case *ast.RangeStmt:
			if core.ObjOf(info, x.X) != srcObj || x.Key == nil || x.Value == nil || len(x.Body.List) == 0 {
				return true
			}
			last, ok := x.Body.List[len(x.Body.List)-1].(*ast.AssignStmt)
			if !ok || last.Tok != token.ASSIGN || len(last.Lhs) != 1 || len(last.Rhs) != 1 {
				return true
			}
			ix, ok := ast.Unparen(last.Lhs[0]).(*ast.IndexExpr)
			if !ok || core.ObjOf(info, ix.X) != q || core.ObjOf(info, ix.Index) != core.ObjOf(info, x.Key) {
				return true
			}
			found = &byteLoop{src: x.X, loop: x, elem: core.ObjOf(info, x.Value), out: last.Rhs[0]}
		}
		return true
	})
	if found == nil {
		return nil, why
	}
	if stores != 1 {
		return nil, "the folded copy is stored into at more than one place"
	}
	return found, ""
}

// evalByte runs the loop body for one value of the element and returns the stored byte.
func (bl *byteLoop) evalByte(info *types.Info, b byte) (byte, bool) {
	env := map[types.Object]int64{bl.elem: int64(b)}
	trunc := func(e ast.Expr, v int64) int64 {
		if tv, ok := info.Types[e]; ok && tv.Type != nil {
			if bt, ok := tv.Type.Underlying().(*types.Basic); ok {
				switch bt.Kind() {
				case types.Uint8:
					return v & 0xff
				case types.Int8:
					return int64(int8(v))
				case types.Uint16:
					return v & 0xffff
				case types.Uint32:
					return v & 0xffffffff
				case types.Int32:
					return int64(int32(v))
				}
			}
		}
		return v
	}
	var expr func(e ast.Expr) (int64, bool)
	var cond func(e ast.Expr) (bool, bool)
	expr = func(e ast.Expr) (int64, bool) {
		if tv, ok := info.Types[e]; ok && tv.Value != nil {
			if v := constant.ToInt(tv.Value); v.Kind() == constant.Int {
				n, exact := constant.Int64Val(v)
				return n, exact
			}
			return 0, false
		}
		switch x := ast.Unparen(e).(type) {
		case *ast.Ident:
			v, ok := env[core.ObjOf(info, x)]
			return v, ok
		case *ast.CallExpr:
			if core.IsConversion(info, x) && len(x.Args) == 1 {
				v, ok := expr(x.Args[0])
				return trunc(x, v), ok
			}
		case *ast.BinaryExpr:
			l, ok1 := expr(x.X)
			r, ok2 := expr(x.Y)
			if !ok1 || !ok2 {
				return 0, false
			}
			var v int64
			switch x.Op {
			case token.ADD:
				v = l + r
			case token.SUB:
				v = l - r
			case token.OR:
				v = l | r
			case token.AND:
				v = l & r
			case token.XOR:
				v = l ^ r
			case token.AND_NOT:
				v = l &^ r
			case token.SHL:
				if r < 0 || r > 62 {
					return 0, false
				}
				v = l << uint(r)
			case token.SHR:
				if r < 0 || r > 62 {
					return 0, false
				}
				v = l >> uint(r)
			default:
				return 0, false
			}
			return trunc(x, v), true
		}
		return 0, false
	}
	cond = func(e ast.Expr) (bool, bool) {
		switch x := ast.Unparen(e).(type) {
		case *ast.UnaryExpr:
			if x.Op == token.NOT {
				v, ok := cond(x.X)
				return !v, ok
			}
		case *ast.BinaryExpr:
			switch x.Op {
			case token.LAND, token.LOR:
				l, ok1 := cond(x.X)
				if !ok1 {
					return false, false
				}
				if x.Op == token.LAND && !l {
					return false, true
				}
				if x.Op == token.LOR && l {
					return true, true
				}
				return cond(x.Y)
			case token.EQL, token.NEQ, token.LSS, token.LEQ, token.GTR, token.GEQ:
				l, ok1 := expr(x.X)
				r, ok2 := expr(x.Y)
				if !ok1 || !ok2 {
					return false, false
				}
				switch x.Op {
				case token.EQL:
					return l == r, true
				case token.NEQ:
					return l != r, true
				case token.LSS:
					return l < r, true
				case token.LEQ:
					return l <= r, true
				case token.GTR:
					return l > r, true
				default:
					return l >= r, true
				}
			}
		}
		return false, false
	}
	assignOps := map[token.Token]token.Token{token.ADD_ASSIGN: token.ADD, token.SUB_ASSIGN: token.SUB, token.OR_ASSIGN: token.OR, token.AND_ASSIGN: token.AND, token.XOR_ASSIGN: token.XOR}
	var run func(list []ast.Stmt) bool
	run = func(list []ast.Stmt) bool {
		for _, st := range list {
			switch x := st.(type) {
			case *ast.IfStmt:
				if x.Init != nil {
					return false
				}
				v, ok := cond(x.Cond)
				if !ok {
					return false
				}
				if v {
					if !run(x.Body.List) {
						return false
					}
				} else if x.Else != nil {
					switch e := x.Else.(type) {
					case *ast.BlockStmt:
						if !run(e.List) {
							return false
						}
					case *ast.IfStmt:
						if !run([]ast.Stmt{e}) {
							return false
						}
					}
				}
			case *ast.AssignStmt:
				if len(x.Lhs) != 1 || len(x.Rhs) != 1 {
					return false
				}
				if _, isIdx := ast.Unparen(x.Lhs[0]).(*ast.IndexExpr); isIdx {
					continue // the final store, evaluated by the caller
				}
				o := core.ObjOf(info, x.Lhs[0])
				if o == nil {
					return false
				}
				r, ok := expr(x.Rhs[0])
				if !ok {
					return false
				}
				if op, isOp := assignOps[x.Tok]; isOp {
					l, has := env[o]
					if !has {
						return false
					}
					switch op {
					case token.ADD:
						r = l + r
					case token.SUB:
						r = l - r
					case token.OR:
						r = l | r
					case token.AND:
						r = l & r
					case token.XOR:
						r = l ^ r
					}
				} else if x.Tok != token.ASSIGN && x.Tok != token.DEFINE {
					return false
				}
				env[o] = trunc(x.Lhs[0], r)
			case *ast.IncDecStmt:
				o := core.ObjOf(info, x.X)
				l, has := env[o]
				if !has {
					return false
				}
				if x.Tok == token.INC {
					l++
				} else {
					l--
				}
				env[o] = trunc(x.X, l)
			default:
				return false
			}
		}
		return true
	}
	if !run(bl.loop.Body.List) {
		return 0, false
	}
	v, ok := expr(bl.out)
	if !ok {
		return 0, false
	}
	return byte(v & 0xff), true
}

// foldKind classifies how the operand e of fd (whose residues come from
// parameter number param) is folded: "bytewise" (accepted loop, map verified),
// "runewise" (a rune-wise library fold), or "" with a reason.
func foldKind(p *core.Prog, info *types.Info, fd *ast.FuncDecl, e ast.Expr, param int) (kind, detail string) {
	asg := core.Assigns(info, fd.Body)
	fromParam := func(x ast.Expr) bool {
		in := core.Origin(info, asg, x)
		bc, ok := ast.Unparen(in).(*ast.CallExpr)
		if !ok {
			return false
		}
		sel, ok := ast.Unparen(bc.Fun).(*ast.SelectorExpr)
		return ok && sel.Sel.Name == "Bytes" && core.ParamIndex(info, fd, core.ObjOf(info, sel.X)) == param
	}
	check := func(bl *byteLoop, linfo *types.Info) (string, string) {
		for b := 0; b < 256; b++ {
			got, ok := bl.evalByte(linfo, byte(b))
			if !ok {
				return "", "the per-byte map of the folding loop cannot be evaluated (statement or operator outside the supported fragment)"
			}
			want := byte(b)
			if 'A' <= want && want <= 'Z' {
				want += 'a' - 'A'
			}
			if got != want {
				return "wrongmap", fmt.Sprintf("the folding loop maps byte 0x%02x (%q) to 0x%02x (%q), ASCII lower-casing maps it to 0x%02x (%q)", b, rune(b), got, rune(got), want, rune(want))
			}
		}
		return "bytewise", "a loop of the same length whose per-byte map is ASCII lower-casing for all 256 byte values"
	}
	o := ast.Unparen(core.Origin(info, asg, e))
	if c, ok := o.(*ast.CallExpr); ok && core.IsBuiltin(info, c, "make") {
		// a slice made here: the fold is written out in the function itself
		o = ast.Unparen(e)
		for {
			id, isID := o.(*ast.Ident)
			if !isID {
				break
			}
			defs := asg[core.ObjOf(info, id)]
			if len(defs) != 1 || defs[0].RHS == nil {
				break
			}
			if _, isMake := ast.Unparen(defs[0].RHS).(*ast.CallExpr); isMake {
				break
			}
			o = ast.Unparen(defs[0].RHS)
		}
	}
	if c, ok := o.(*ast.CallExpr); ok {
		if core.IsCallTo(info, c, "bytes.ToLower", "bytes.ToUpper", "bytes.Map", "bytes.ToTitle", "bytes.ToLowerSpecial", "bytes.ToValidUTF8") {
			return "runewise", "folded with " + types.ExprString(c.Fun)
		}
		if core.IsConversion(info, c) && len(c.Args) == 1 {
			if ic, ok := ast.Unparen(c.Args[0]).(*ast.CallExpr); ok && core.IsCallTo(info, ic, "strings.ToLower", "strings.ToUpper", "strings.Map", "strings.ToTitle") {
				return "runewise", "folded with " + types.ExprString(ic.Fun)
			}
		}
		// a repository helper applied to param.Bytes()
		if fn := core.Callee(info, c); fn != nil && fn.Pkg() != nil && fn.Pkg().Path() == core.PkgGts && len(c.Args) == 1 && fromParam(c.Args[0]) {
			hd := p.FuncDecl(core.PkgGts, fn.Name())
			if hd == nil || hd.Body == nil || hd.Recv != nil || hd.Type.Params.NumFields() != 1 {
				return "", "the folding helper " + fn.Name() + " cannot be read"
			}
			var ret types.Object
			for _, rs := range core.Returns(hd.Body) {
				if len(rs.Results) != 1 {
					return "", "the folding helper returns more than one value"
				}
				ro := core.ObjOf(info, rs.Results[0])
				if ro == nil || (ret != nil && ro != ret) {
					return "", "the folding helper does not return one local slice"
				}
				ret = ro
			}
			if ret == nil {
				return "", "the folding helper returns nothing"
			}
			bl, why := fillLoopOf(info, hd.Body, ret)
			if bl == nil {
				return "", why
			}
			if core.ParamIndex(info, hd, core.ObjOf(info, bl.src)) != 0 {
				return "", "the folding helper does not range over its parameter"
			}
			return check(bl, info)
		}
		return "", "the operand is the result of " + types.ExprString(c.Fun) + ", not a recognised fold"
	}
	// a local slice filled in the function itself
	if qo := core.ObjOf(info, o); qo != nil {
		bl, why := fillLoopOf(info, fd.Body, qo)
		if bl == nil {
			return "", why
		}
		if !fromParam(bl.src) {
			return "", "the folding loop does not range over the residues of the operand"
		}
		return check(bl, info)
	}
	return "", "the operand is not a folded copy of the residues"
}

// foldBytewise registers the four FOLD-BYTEWISE obligations.
func foldBytewise(p *core.Prog, r *core.Report, info *types.Info, key string, fd *ast.FuncDecl, e ast.Expr, param int, role string) (folded bool) {
	kind, detail := foldKind(p, info, fd, e, param)
	pos := p.Pos(e.Pos())
	switch kind {
	case "bytewise":
		r.Ok("FOLD-BYTEWISE", key, pos, role+": "+detail)
		return true
	case "runewise":
		r.Bad("FOLD-BYTEWISE", key, pos, role+" is "+detail+", which folds rune by rune: an invalid UTF-8 byte grows to the three bytes of U+FFFD (and some letters change width), so the offsets found in the copy are not offsets of the sequence - Search(\"a\\xffKa\", \"a\") reports a hit at [5,6) in a sequence of 4 bytes")
		return true // it is a case fold; that it is not byte-wise is this rule's report
	case "wrongmap":
		r.Bad("FOLD-BYTEWISE", key, pos, role+": "+detail)
		return false
	}
	r.Und("FOLD-BYTEWISE", key, pos, role+": "+detail)
	return false
}

package tables

import (
	"fmt"
	"go/ast"
	"go/token"
	"go/types"

	"gtsverif/core"
	"gtsverif/engines/orders"
)

// ResidueClass decides RESIDUE-CLASS (C16): the predicate with which both
// ORIGIN readers recognise a residue accepts every printable non-blank byte
// (the writer lays out whatever residues it is given) and rejects the three
// bytes the layout itself is made of (space, line feed, carriage return).
// Decided exhaustively over the 256 byte values: the predicate is either a
// range filter with constant bounds or a function of one byte built from
// comparisons, which the finite-domain evaluator runs on every value.
func ResidueClass(p *core.Prog, r *core.Report) {
	r.Rule("RESIDUE-CLASS", "the residue predicate applied by seqio.validateOrigin and seqio.slowGenBankOriginParser (one and the same object in both) is true for every byte 33..126 and false for 10, 13 and 32; decided for all 256 byte values", 2)
	info := p.Info(core.PkgSeqio)
	var pred types.Object
	for _, fn := range []string{"validateOrigin", "slowGenBankOriginParser"} {
		fd := p.FuncDecl(core.PkgSeqio, fn)
		key := "seqio." + fn + "|residue-predicate"
		if fd == nil || fd.Body == nil {
			r.Und("RESIDUE-CLASS", key, "-", "anchor-unresolved")
			return
		}
		r.Fn("seqio." + fn)
		var found types.Object
		n := 0
		ast.Inspect(fd.Body, func(nd ast.Node) bool {
			u, ok := nd.(*ast.UnaryExpr)
			if !ok || u.Op != token.NOT {
				return true
			}
			c, ok := ast.Unparen(u.X).(*ast.CallExpr)
			if !ok || len(c.Args) != 1 {
				return true
			}
			if _, isIdx := ast.Unparen(c.Args[0]).(*ast.IndexExpr); !isIdx {
				return true
			}
			if tv, ok := info.Types[c.Args[0]]; !ok || !isByte(tv.Type) {
				return true
			}
			if o := core.ObjOf(info, c.Fun); o != nil {
				found = o
				n++
			}
			return true
		})
		if found == nil {
			r.Und("RESIDUE-CLASS", key, p.Pos(fd.Pos()), "no `!pred(buffer[i])` residue test found")
			return
		}
		if pred != nil && pred != found {
			r.Bad("RESIDUE-CLASS", key, p.Pos(fd.Pos()), "the fast and the slow ORIGIN reader test residues with different predicates ("+pred.Name()+" / "+found.Name()+"): they accept different blocks")
			return
		}
		pred = found
		r.Ok("RESIDUE-CLASS", key, p.Pos(fd.Pos()), fmt.Sprintf("%d residue test(s) through %s", n, found.Name()))
	}
	// the accepted set
	accept := func(b int) (bool, error) { return false, fmt.Errorf("unrecognised predicate") }
	switch o := pred.(type) {
	case *types.Var:
		init, iinfo := p.PkgVarInit(o)
		c, ok := ast.Unparen(init).(*ast.CallExpr)
		if init == nil || !ok || !core.IsCallTo(iinfo, c, "github.com/go-ascii/ascii.Range") || len(c.Args) != 2 {
			r.Und("RESIDUE-CLASS", "seqio."+pred.Name()+"|set", p.Pos(pred.Pos()), "the predicate is neither ascii.Range(lo, hi) with constant bounds nor a function of one byte")
			return
		}
		lo, ok1 := core.ConstInt(iinfo, c.Args[0])
		hi, ok2 := core.ConstInt(iinfo, c.Args[1])
		if !ok1 || !ok2 {
			r.Und("RESIDUE-CLASS", "seqio."+pred.Name()+"|set", p.Pos(pred.Pos()), "the bounds of the range filter are not constants")
			return
		}
		accept = func(b int) (bool, error) { return int64(b) >= lo && int64(b) <= hi, nil } // ascii.Range is inclusive on both ends
		r.Assumptions = append(r.Assumptions, "ascii.Range(lo, hi) accepts lo <= c <= hi (read from go-ascii/ascii v1.0.3 filters.go)")
	case *types.Func:
		accept = func(b int) (bool, error) {
			res, err := orders.EvalInts(p, core.PkgSeqio, o.Name(), int64(b))
			if err != nil {
				return false, err
			}
			if !res.IsB {
				return false, fmt.Errorf("the predicate does not return a boolean")
			}
			return res.Bool, nil
		}
	}
	key := "seqio." + pred.Name() + "|set"
	var missing, extra []int
	for b := 0; b < 256; b++ {
		ok, err := accept(b)
		if err != nil {
			r.Und("RESIDUE-CLASS", key, p.Pos(pred.Pos()), "cannot evaluate the predicate for byte "+fmt.Sprint(b)+": "+err.Error())
			return
		}
		if b >= 33 && b <= 126 && !ok {
			missing = append(missing, b)
		}
		if (b == 10 || b == 13 || b == 32) && ok {
			extra = append(extra, b)
		}
	}
	switch {
	case len(missing) > 0:
		r.Bad("RESIDUE-CLASS", key, p.Pos(pred.Pos()), fmt.Sprintf("the readers reject the printable residue byte(s) %v (%q): a block the writer lays out for such residues is refused by gts's own reader", missing, byteString(missing)))
	case len(extra) > 0:
		r.Bad("RESIDUE-CLASS", key, p.Pos(pred.Pos()), fmt.Sprintf("the readers take the layout byte(s) %v for residues: separators and line ends are no longer recognised as such", extra))
	default:
		r.Ok("RESIDUE-CLASS", key, p.Pos(pred.Pos()), "accepts every byte 33..126, rejects 10, 13 and 32 (all 256 values evaluated)")
	}
}

func byteString(bs []int) string {
	out := make([]byte, len(bs))
	for i, b := range bs {
		out[i] = byte(b)
	}
	return string(out)
}

// IndexExact decides INDEX-EXACT (C16): both ORIGIN readers compare the nine
// index columns of every line, byte for byte, with the text the writer prints
// for that line (`%9d` of the 1-based position). A reader that parses the
// columns as a number instead accepts other spellings of the same number
// (zero padded, signed), so the two paths stop accepting the same blocks.
func IndexExact(p *core.Prog, r *core.Report) {
	r.Rule("INDEX-EXACT", "seqio.validateOrigin and seqio.slowGenBankOriginParser each compare the line with fmt.Sprintf(\"%Wd\", position) through bytes.HasPrefix / bytes.Equal (W the index width of the writer); neither converts the index columns to a number", 2)
	info := p.Info(core.PkgSeqio)
	for _, fn := range []string{"validateOrigin", "slowGenBankOriginParser"} {
		fd := p.FuncDecl(core.PkgSeqio, fn)
		key := "seqio." + fn + "|index"
		if fd == nil || fd.Body == nil {
			r.Und("INDEX-EXACT", key, "-", "anchor-unresolved")
			continue
		}
		r.Fn("seqio." + fn)
		asg := core.Assigns(info, fd.Body)
		isIndexText := func(e ast.Expr) bool {
			found := false
			var visit func(e ast.Expr, depth int)
			visit = func(e ast.Expr, depth int) {
				if depth > 4 || found {
					return
				}
				e = ast.Unparen(core.Origin(info, asg, e))
				if c, ok := e.(*ast.CallExpr); ok {
					if core.IsConversion(info, c) && len(c.Args) == 1 {
						visit(c.Args[0], depth+1)
						return
					}
					if core.IsCallTo(info, c, "fmt.Sprintf") && len(c.Args) == 2 {
						if f, ok := core.ConstString(info, c.Args[0]); ok && len(f) >= 3 && f[0] == '%' && f[len(f)-1] == 'd' {
							found = true
						}
					}
				}
			}
			visit(e, 0)
			return found
		}
		exact := false
		var numeric *ast.CallExpr
		for _, c := range core.Calls(fd.Body) {
			if core.IsCallTo(info, c, "bytes.HasPrefix", "bytes.Equal") && len(c.Args) == 2 && (isIndexText(c.Args[0]) || isIndexText(c.Args[1])) {
				exact = true
			}
			if core.IsCallTo(info, c, "strconv.Atoi", "strconv.ParseInt", "strconv.ParseUint") {
				numeric = c
			}
		}
		switch {
		case numeric != nil:
			r.Bad("INDEX-EXACT", key, p.Pos(numeric.Pos()), fn+" reads the index columns as a number: `000000061` or `      +61` pass where the other reader (and the writer's layout) demand the exact nine-column text")
		case !exact:
			r.Bad("INDEX-EXACT", key, p.Pos(fd.Pos()), fn+" does not compare the line with the formatted index text")
		default:
			r.Ok("INDEX-EXACT", key, p.Pos(fd.Pos()), "byte-for-byte comparison with the formatted index")
		}
	}
}

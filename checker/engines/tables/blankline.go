package tables

import (
	"fmt"
	"go/ast"
	"go/token"
	"go/types"
	"strings"

	"golang.org/x/tools/go/cfg"

	"gtsverif/core"
)

// BlankLine decides BLANK-LINE: the GenBank writer never emits an empty line.
// The reader has no production for one (every line is a field, a continuation,
// a feature line, an ORIGIN line or the terminator), so a record written with
// an empty line does not read back.
//
// The text written so far is abstracted to where it ends: nothing written (N),
// in the middle of a line (M), just after a newline (S). A newline written at
// S (or at N) is an empty line. Constant operands are interpreted exactly;
// a non-constant operand is assumed non-empty and free of newlines at its ends,
// except a String()/WriteTo of a repo type, whose possible endings are computed
// from its own body (so "may write nothing at all" is derived, not assumed).
func BlankLine(p *core.Prog, r *core.Report) {
	r.Rule("BLANK-LINE", "on no path through seqio.GenBank.String is a newline written when the text so far ends with a newline (or is empty): constant pieces are interpreted exactly, a repo formatter's output may be empty exactly when its own body can write nothing, and a test `len(x) > 0` of the formatter's table excludes that case", 1)
	r.Assumptions = append(r.Assumptions, "field values written by the GenBank writer are non-empty and neither start nor end with a newline (AddPrefix and the wrappers only insert newlines inside)")
	info := p.Info(core.PkgSeqio)
	fd := p.FuncDecl(core.PkgSeqio, "GenBank.String")
	if fd == nil || fd.Body == nil {
		r.Und("BLANK-LINE", "seqio.GenBank.String|anchor", "-", "anchor-unresolved")
		return
	}
	r.Fn("seqio.GenBank.String")
	bl := &blank{p: p, info: info, sum: map[string]map[byte]bool{}}
	viol, _ := bl.scan(fd.Body, builderVar(info, fd.Body), 'N')
	if len(viol) == 0 {
		r.Ok("BLANK-LINE", "seqio.GenBank.String", p.Pos(fd.Pos()), "no newline is ever written at a line start")
		return
	}
	seen := map[token.Pos]bool{}
	k := 0
	for _, v := range viol {
		if seen[v.pos] {
			continue
		}
		seen[v.pos] = true
		k++
		r.Bad("BLANK-LINE", fmt.Sprintf("seqio.GenBank.String|newline#%d", k), p.Pos(v.pos), "a newline is written here although the text so far can end with a newline"+v.why+": the record contains an empty line, which the reader rejects")
	}
}

type blank struct {
	p    *core.Prog
	info *types.Info
	sum  map[string]map[byte]bool
}

type blankViol struct {
	pos token.Pos
	why string
}

// builderVar finds the strings.Builder / bytes.Buffer local of a body.
func builderVar(info *types.Info, body *ast.BlockStmt) types.Object {
	var out types.Object
	ast.Inspect(body, func(n ast.Node) bool {
		if as, ok := n.(*ast.AssignStmt); ok && len(as.Lhs) == 1 && out == nil {
			if o := core.ObjOf(info, as.Lhs[0]); o != nil {
				s := o.Type().String()
				if s == "strings.Builder" || s == "bytes.Buffer" {
					out = o
				}
			}
		}
		return true
	})
	return out
}

// pieces classifies the operands of a written expression: each piece is a
// constant string, or a marker for non-constant content.
type piece struct {
	konst bool
	s     string
	call  *ast.CallExpr // non-constant: the call, if it is one
}

func (bl *blank) pieces(e ast.Expr, out *[]piece) {
	e = ast.Unparen(e)
	if s, ok := core.ConstString(bl.info, e); ok {
		*out = append(*out, piece{konst: true, s: s})
		return
	}
	if v, ok := core.ConstInt(bl.info, e); ok {
		*out = append(*out, piece{konst: true, s: string(rune(v))})
		return
	}
	switch x := e.(type) {
	case *ast.BinaryExpr:
		if x.Op == token.ADD {
			bl.pieces(x.X, out)
			bl.pieces(x.Y, out)
			return
		}
	case *ast.CallExpr:
		if (core.IsCallTo(bl.info, x, "fmt.Sprintf") || core.IsCallTo(bl.info, x, "fmt.Fprintf")) && len(x.Args) >= 1 {
			if f, ok := core.ConstString(bl.info, x.Args[0]); ok {
				// verbs are non-empty content in the middle of a line
				parts := strings.Split(f, "%")
				for i, part := range parts {
					if i > 0 {
						*out = append(*out, piece{})
						// drop the verb itself (flags, width, letter)
						j := 0
						for j < len(part) && !(part[j] >= 'a' && part[j] <= 'z' || part[j] >= 'A' && part[j] <= 'Z') {
							j++
						}
						if j < len(part) {
							part = part[j+1:]
						}
					}
					if part != "" {
						*out = append(*out, piece{konst: true, s: part})
					}
				}
				return
			}
		}
		*out = append(*out, piece{call: x})
		return
	}
	*out = append(*out, piece{})
}

// endings of the text a repo String() method can return: subset of {N, M, S}.
func (bl *blank) stringSummary(recvType types.Type) map[byte]bool {
	n, ok := recvType.(*types.Named)
	if !ok {
		if pt, isPtr := recvType.(*types.Pointer); isPtr {
			n, ok = pt.Elem().(*types.Named)
		}
	}
	if !ok || n.Obj().Pkg() == nil || !strings.HasPrefix(n.Obj().Pkg().Path(), core.Mod) {
		return nil
	}
	key := n.Obj().Pkg().Path() + "." + n.Obj().Name()
	if s, ok := bl.sum[key]; ok {
		return s
	}
	bl.sum[key] = nil // recursion guard
	fd := bl.p.FuncDecl(n.Obj().Pkg().Path(), n.Obj().Name()+".String")
	if fd == nil || fd.Body == nil {
		return nil
	}
	sub := &blank{p: bl.p, info: bl.p.Info(n.Obj().Pkg().Path()), sum: bl.sum}
	b := builderVar(sub.info, fd.Body)
	if b == nil {
		return nil
	}
	_, ends := sub.scan(fd.Body, b, 'N')
	bl.sum[key] = ends
	return ends
}

// scan explores every path of body; state is where the text written into
// builder ends. It returns the newline-at-line-start sites and the set of
// states at the exits.
func (bl *blank) scan(body *ast.BlockStmt, builder types.Object, init byte) ([]blankViol, map[byte]bool) {
	type st struct {
		at       byte
		nonEmpty string // canonical text of an expression known to have len > 0 on this path
	}
	var viol []blankViol
	ends := map[byte]bool{}
	if builder == nil {
		return nil, ends
	}
	fl := core.NewFlow(bl.info, body)
	asg := core.Assigns(bl.info, body)
	write := func(s st, ps []piece, pos token.Pos) []st {
		outs := []st{s}
		for _, pc := range ps {
			var next []st
			for _, cur := range outs {
				switch {
				case pc.konst:
					if pc.s == "" {
						next = append(next, cur)
						continue
					}
					if pc.s[0] == '\n' && cur.at != 'M' {
						why := ""
						if cur.at == 'N' {
							why = " (nothing has been written yet)"
						}
						viol = append(viol, blankViol{pos, why})
					}
					if strings.Contains(pc.s, "\n\n") {
						viol = append(viol, blankViol{pos, " (the constant itself contains an empty line)"})
					}
					if pc.s[len(pc.s)-1] == '\n' {
						cur.at = 'S'
					} else {
						cur.at = 'M'
					}
					next = append(next, cur)
				case pc.call != nil:
					// X.String() of a repo type: use its summary
					var sum map[byte]bool
					var table string
					if sel, ok := ast.Unparen(pc.call.Fun).(*ast.SelectorExpr); ok && sel.Sel.Name == "String" && len(pc.call.Args) == 0 {
						sum = bl.stringSummary(bl.info.TypeOf(sel.X))
						table = firstField(bl.info, asg, sel.X)
					}
					if sum == nil {
						cur.at = 'M'
						next = append(next, cur)
						continue
					}
					for e := range sum {
						c := cur
						switch e {
						case 'N':
							if table != "" && table == cur.nonEmpty {
								continue // excluded by the guard on this path
							}
						case 'M':
							c.at = 'M'
						case 'S':
							c.at = 'S'
						}
						next = append(next, c)
					}
				default:
					cur.at = 'M'
					next = append(next, cur)
				}
			}
			outs = next
		}
		return outs
	}
	{
		core.Scan(fl, fl.Entry(), st{at: init}, core.Stepper[st]{
			Node: func(s st, n ast.Node) (st, bool) {
				for _, c := range core.NodeCalls(n) {
					sel, ok := ast.Unparen(c.Fun).(*ast.SelectorExpr)
					if !ok {
						continue
					}
					var ps []piece
					switch {
					case core.IsCallTo(bl.info, c, "fmt.Fprintf") && len(c.Args) >= 2 && mentionsObj(bl.info, c.Args[0], builder):
						// fmt.Fprintf(&b, f, a...) writes what b.WriteString(fmt.Sprintf(f, a...)) writes
						bl.pieces(&ast.CallExpr{Fun: c.Fun, Args: c.Args[1:]}, &ps)
					case core.IsCallTo(bl.info, c, "fmt.Fprint", "fmt.Fprintln") && len(c.Args) >= 1 && mentionsObj(bl.info, c.Args[0], builder):
						for _, a := range c.Args[1:] {
							bl.pieces(a, &ps)
						}
						if core.IsCallTo(bl.info, c, "fmt.Fprintln") {
							ps = append(ps, piece{konst: true, s: "\n"})
						}
					case core.ObjOf(bl.info, sel.X) == builder && (sel.Sel.Name == "WriteString" || sel.Sel.Name == "WriteByte" || sel.Sel.Name == "WriteRune" || sel.Sel.Name == "Write") && len(c.Args) == 1:
						bl.pieces(c.Args[0], &ps)
					case sel.Sel.Name == "WriteTo" && len(c.Args) == 1 && mentionsObj(bl.info, c.Args[0], builder):
						// X.WriteTo(&b): writes X.String()
						ps = []piece{{call: &ast.CallExpr{Fun: &ast.SelectorExpr{X: sel.X, Sel: ast.NewIdent("String")}}}}
					default:
						continue
					}
					outs := write(s, ps, c.Pos())
					if len(outs) == 0 {
						return s, true
					}
					// several outcomes (a formatter that may or may not write): keep the worst case for blank-line detection (S/N over M) while keeping facts
					best := outs[0]
					for _, o := range outs[1:] {
						if o.at != 'M' {
							best = o
						}
					}
					s = best
				}
				return s, false
			},
			Edge: func(s st, cond ast.Expr, taken bool) st {
				core.Facts(cond, taken, func(atom ast.Expr, val bool) {
					be, ok := ast.Unparen(atom).(*ast.BinaryExpr)
					if !ok {
						return
					}
					lc, ok := ast.Unparen(be.X).(*ast.CallExpr)
					z, okz := core.ConstInt(bl.info, be.Y)
					if !ok || !okz || z != 0 || !core.IsBuiltin(bl.info, lc, "len") {
						return
					}
					if (be.Op == token.GTR || be.Op == token.NEQ) && val || (be.Op == token.EQL || be.Op == token.LEQ) && !val {
						s.nonEmpty = types.ExprString(ast.Unparen(lc.Args[0]))
					}
				})
				return s
			},
			Exit: func(s st, b *cfg.Block, last ast.Node) {
				ends[s.at] = true
			},
		})
	}
	return viol, ends
}

func mentionsObj(info *types.Info, e ast.Expr, o types.Object) bool {
	return core.UsesObj(info, e, o)
}

// firstField: for a variable defined as T{X, ...} the text of X (the table a
// formatter prints).
func firstField(info *types.Info, asg map[types.Object][]core.Assign, e ast.Expr) string {
	o := core.ObjOf(info, ast.Unparen(e))
	if o == nil {
		return ""
	}
	for _, a := range asg[o] {
		if cl, ok := ast.Unparen(a.RHS).(*ast.CompositeLit); a.RHS != nil && ok && len(cl.Elts) > 0 {
			el := cl.Elts[0]
			if kv, ok := el.(*ast.KeyValueExpr); ok {
				el = kv.Value
			}
			return types.ExprString(ast.Unparen(el))
		}
	}
	return ""
}

package tables

import (
	"fmt"
	"go/ast"
	"go/token"
	"go/types"

	"gtsverif/core"
)

// padSpec is `x := K - len(strconv.Itoa(<ref>.Number)); if x < T { x = V }`
// feeding strings.Repeat(" ", x).
type padSpec struct {
	k, t, v int64
	clamped bool
	pos     token.Pos
}

func (s padSpec) String() string {
	if !s.clamped {
		return fmt.Sprintf("pad(n) = %d - digits(n)", s.k)
	}
	return fmt.Sprintf("pad(n) = %d - digits(n), replaced by %d when below %d", s.k, s.v, s.t)
}

// findPad looks for the reference-number padding computation in body.
func findPad(info *types.Info, body ast.Node) (padSpec, bool) {
	var spec padSpec
	var x types.Object
	ast.Inspect(body, func(n ast.Node) bool {
		as, ok := n.(*ast.AssignStmt)
		if !ok || len(as.Lhs) != 1 || len(as.Rhs) != 1 || x != nil {
			return true
		}
		be, ok := ast.Unparen(as.Rhs[0]).(*ast.BinaryExpr)
		if !ok || be.Op != token.SUB {
			return true
		}
		k, isC := core.ConstInt(info, be.X)
		lc, isL := ast.Unparen(be.Y).(*ast.CallExpr)
		if !isC || !isL || !core.IsBuiltin(info, lc, "len") || len(lc.Args) != 1 {
			return true
		}
		ic, ok := ast.Unparen(lc.Args[0]).(*ast.CallExpr)
		if !ok || !core.IsCallTo(info, ic, "strconv.Itoa") || len(ic.Args) != 1 {
			return true
		}
		sel, ok := ast.Unparen(ic.Args[0]).(*ast.SelectorExpr)
		if !ok || sel.Sel.Name != "Number" {
			return true
		}
		x = core.ObjOf(info, as.Lhs[0])
		spec.k, spec.pos = k, as.Pos()
		return true
	})
	if x == nil {
		return spec, false
	}
	ast.Inspect(body, func(n ast.Node) bool {
		is, ok := n.(*ast.IfStmt)
		if !ok || is.Else != nil || len(is.Body.List) != 1 {
			return true
		}
		as, ok := is.Body.List[0].(*ast.AssignStmt)
		if !ok || len(as.Lhs) != 1 || core.ObjOf(info, as.Lhs[0]) != x || as.Tok != token.ASSIGN {
			return true
		}
		v, isC := core.ConstInt(info, as.Rhs[0])
		be, isB := ast.Unparen(is.Cond).(*ast.BinaryExpr)
		if !isC || !isB || core.ObjOf(info, be.X) != x {
			return true
		}
		t, isT := core.ConstInt(info, be.Y)
		if !isT {
			return true
		}
		switch be.Op {
		case token.LSS:
		case token.LEQ:
			t++
		default:
			return true
		}
		spec.t, spec.v, spec.clamped = t, v, true
		return true
	})
	return spec, true
}

// PadAgree decides PAD-AGREE: the writer pads the reference number with the
// same function of the number that the reader consumes.
func PadAgree(p *core.Prog, r *core.Report) {
	r.Rule("PAD-AGREE", "the number of blanks GenBank.String writes between a REFERENCE number and its info is the same function of the number (constant, clamp threshold and clamp value) as the padding genbankReferenceParser consumes before it reads the info", 1)
	info := p.Info(core.PkgSeqio)
	w := p.FuncDecl(core.PkgSeqio, "GenBank.String")
	rd := p.FuncDecl(core.PkgSeqio, "genbankReferenceParser")
	if w == nil || rd == nil || w.Body == nil || rd.Body == nil {
		r.Und("PAD-AGREE", "seqio.REFERENCE|anchor", "-", "anchor-unresolved")
		return
	}
	r.Fn("seqio.GenBank.String")
	r.Fn("seqio.genbankReferenceParser")
	ws, ok1 := findPad(info, w.Body)
	rs, ok2 := findPad(info, rd.Body)
	switch {
	case !ok1 || !ok2:
		r.Und("PAD-AGREE", "seqio.REFERENCE", p.Pos(w.Pos()), fmt.Sprintf("padding computation `K - len(strconv.Itoa(ref.Number))` not found (writer: %v, reader: %v)", ok1, ok2))
	case ws.k != rs.k || ws.clamped != rs.clamped || ws.t != rs.t || ws.v != rs.v:
		r.Bad("PAD-AGREE", "seqio.REFERENCE", p.Pos(ws.pos), "writer: "+ws.String()+"; reader: "+rs.String()+": for some reference numbers the reader consumes a different number of blanks than the writer emitted, so the info gains or loses a leading blank on every round trip")
	default:
		r.Ok("PAD-AGREE", "seqio.REFERENCE", p.Pos(ws.pos), ws.String()+" on both sides")
	}
}

// TrimOne decides TRIM-ONE: FlatFileSplit removes exactly the one period the
// writer appends.
func TrimOne(p *core.Prog, r *core.Report) {
	r.Rule("TRIM-ONE", "seqio.FlatFileSplit strips the terminating period with strings.TrimSuffix(s, \".\") (exactly the one period the writer appends after joining with \"; \"), not with a cutset trim that also eats periods belonging to the last item", 1)
	info := p.Info(core.PkgSeqio)
	fd := p.FuncDecl(core.PkgSeqio, "FlatFileSplit")
	if fd == nil || fd.Body == nil {
		r.Und("TRIM-ONE", "seqio.FlatFileSplit|anchor", "-", "anchor-unresolved")
		return
	}
	r.Fn("seqio.FlatFileSplit")
	good, bad := 0, ""
	for _, c := range core.Calls(fd.Body) {
		fn := core.Callee(info, c)
		if fn == nil || fn.Pkg() == nil || fn.Pkg().Path() != "strings" {
			continue
		}
		switch fn.Name() {
		case "TrimSuffix":
			if s, ok := core.ConstString(info, c.Args[1]); ok && s == "." {
				good++
			} else {
				bad = "TrimSuffix of something other than \".\""
			}
		case "TrimRight", "Trim", "TrimLeft", "TrimFunc", "TrimRightFunc":
			bad = "strings." + fn.Name() + " removes every trailing byte of the cutset: an item that itself ends in a period (e.g. `sp.`) loses it"
		}
	}
	switch {
	case bad != "":
		r.Bad("TRIM-ONE", "seqio.FlatFileSplit", p.Pos(fd.Pos()), bad)
	case good != 1:
		r.Bad("TRIM-ONE", "seqio.FlatFileSplit", p.Pos(fd.Pos()), fmt.Sprintf("the terminating period is stripped %d times, the writer appends exactly one", good))
	default:
		r.Ok("TRIM-ONE", "seqio.FlatFileSplit", p.Pos(fd.Pos()), "exactly one trailing period removed")
	}
}

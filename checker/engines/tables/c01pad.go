package tables

import (
	"fmt"
	"go/ast"
	"go/token"
	"go/types"
	"strings"

	"gtsverif/core"
)

// padSpec is `x := K - len(strconv.Itoa(<ref>.Number)); if x < T { x = V }`
// feeding strings.Repeat(" ", x).
type padSpec struct {
	k, t, v int64
	clamped bool
	pos     token.Pos
}

func (s padSpec) String() string {
	if !s.clamped {
		return fmt.Sprintf("pad(n) = %d - digits(n)", s.k)
	}
	return fmt.Sprintf("pad(n) = %d - digits(n), replaced by %d when below %d", s.k, s.v, s.t)
}

// findPad looks for the reference-number padding computation in body.
func findPad(info *types.Info, body ast.Node) (padSpec, bool) {
	var spec padSpec
	var x types.Object
	ast.Inspect(body, func(n ast.Node) bool {
		as, ok := n.(*ast.AssignStmt)
		if !ok || len(as.Lhs) != 1 || len(as.Rhs) != 1 || x != nil {
			return true
		}
		be, ok := ast.Unparen(as.Rhs[0]).(*ast.BinaryExpr)
		if !ok || be.Op != token.SUB {
			return true
		}
		k, isC := core.ConstInt(info, be.X)
		lc, isL := ast.Unparen(be.Y).(*ast.CallExpr)
		if !isC || !isL || !core.IsBuiltin(info, lc, "len") || len(lc.Args) != 1 {
			return true
		}
		ic, ok := ast.Unparen(lc.Args[0]).(*ast.CallExpr)
		if !ok || !core.IsCallTo(info, ic, "strconv.Itoa") || len(ic.Args) != 1 {
			return true
		}
		sel, ok := ast.Unparen(ic.Args[0]).(*ast.SelectorExpr)
		if !ok || sel.Sel.Name != "Number" {
			return true
		}
		x = core.ObjOf(info, as.Lhs[0])
		spec.k, spec.pos = k, as.Pos()
		return true
	})
	if x == nil {
		return spec, false
	}
	ast.Inspect(body, func(n ast.Node) bool {
		is, ok := n.(*ast.IfStmt)
		if !ok || is.Else != nil || len(is.Body.List) != 1 {
			return true
		}
		as, ok := is.Body.List[0].(*ast.AssignStmt)
		if !ok || len(as.Lhs) != 1 || core.ObjOf(info, as.Lhs[0]) != x || as.Tok != token.ASSIGN {
			return true
		}
		v, isC := core.ConstInt(info, as.Rhs[0])
		be, isB := ast.Unparen(is.Cond).(*ast.BinaryExpr)
		if !isC || !isB || core.ObjOf(info, be.X) != x {
			return true
		}
		t, isT := core.ConstInt(info, be.Y)
		if !isT {
			return true
		}
		switch be.Op {
		case token.LSS:
		case token.LEQ:
			t++
		default:
			return true
		}
		spec.t, spec.v, spec.clamped = t, v, true
		return true
	})
	return spec, true
}

// PadAgree decides PAD-AGREE: the writer pads the reference number with the
// same function of the number that the reader consumes.
func PadAgree(p *core.Prog, r *core.Report) {
	r.Rule("PAD-AGREE", "the number of blanks GenBank.String writes between a REFERENCE number and its info is the same function of the number (constant, clamp threshold and clamp value) as the padding genbankReferenceParser consumes before it reads the info", 1)
	info := p.Info(core.PkgSeqio)
	w := p.FuncDecl(core.PkgSeqio, "GenBank.String")
	rd := p.FuncDecl(core.PkgSeqio, "genbankReferenceParser")
	if w == nil || rd == nil || w.Body == nil || rd.Body == nil {
		r.Und("PAD-AGREE", "seqio.REFERENCE|anchor", "-", "anchor-unresolved")
		return
	}
	r.Fn("seqio.GenBank.String")
	r.Fn("seqio.genbankReferenceParser")
	ws, ok1 := findPad(info, w.Body)
	rs, ok2 := findPad(info, rd.Body)
	switch {
	case !ok1 || !ok2:
		r.Und("PAD-AGREE", "seqio.REFERENCE", p.Pos(w.Pos()), fmt.Sprintf("padding computation `K - len(strconv.Itoa(ref.Number))` not found (writer: %v, reader: %v)", ok1, ok2))
	case ws.k != rs.k || ws.clamped != rs.clamped || ws.t != rs.t || ws.v != rs.v:
		r.Bad("PAD-AGREE", "seqio.REFERENCE", p.Pos(ws.pos), "writer: "+ws.String()+"; reader: "+rs.String()+": for some reference numbers the reader consumes a different number of blanks than the writer emitted, so the info gains or loses a leading blank on every round trip")
	default:
		r.Ok("PAD-AGREE", "seqio.REFERENCE", p.Pos(ws.pos), ws.String()+" on both sides")
	}
}

// TrimOne decides TRIM-ONE: FlatFileSplit removes exactly the one period the
// writer appends.
func TrimOne(p *core.Prog, r *core.Report) {
	r.Rule("TRIM-ONE", "seqio.FlatFileSplit strips the terminating period with strings.TrimSuffix(s, \".\") (exactly the one period the writer appends after joining with \"; \"), not with a cutset trim that also eats periods belonging to the last item", 1)
	info := p.Info(core.PkgSeqio)
	fd := p.FuncDecl(core.PkgSeqio, "FlatFileSplit")
	if fd == nil || fd.Body == nil {
		r.Und("TRIM-ONE", "seqio.FlatFileSplit|anchor", "-", "anchor-unresolved")
		return
	}
	r.Fn("seqio.FlatFileSplit")
	good, bad := 0, ""
	for _, c := range core.Calls(fd.Body) {
		fn := core.Callee(info, c)
		if fn == nil || fn.Pkg() == nil || fn.Pkg().Path() != "strings" {
			continue
		}
		switch fn.Name() {
		case "TrimSuffix":
			if s, ok := core.ConstString(info, c.Args[1]); ok && s == "." {
				good++
			} else {
				bad = "TrimSuffix of something other than \".\""
			}
		case "TrimRight", "Trim", "TrimLeft", "TrimFunc", "TrimRightFunc":
			bad = "strings." + fn.Name() + " removes every trailing byte of the cutset: an item that itself ends in a period (e.g. `sp.`) loses it"
		}
	}
	switch {
	case bad != "":
		r.Bad("TRIM-ONE", "seqio.FlatFileSplit", p.Pos(fd.Pos()), bad)
	case good != 1:
		r.Bad("TRIM-ONE", "seqio.FlatFileSplit", p.Pos(fd.Pos()), fmt.Sprintf("the terminating period is stripped %d times, the writer appends exactly one", good))
	default:
		r.Ok("TRIM-ONE", "seqio.FlatFileSplit", p.Pos(fd.Pos()), "exactly one trailing period removed")
	}
}

// singleLine: labels whose value the reader takes from one line only
// (reviewed): their writer may emit the value as it is.
var singleLine = map[string]string{
	"ACCESSION": "one line (the REGION suffix is appended on the same line)",
	"VERSION":   "one line",
	"PUBMED":    "one line",
	"LOCUS":     "fixed-column line",
}

// PrefixAll decides PREFIX-ALL: every free-text field value the GenBank writer
// emits behind a label goes through AddPrefix(value, indent), so that each
// continuation line of a multi-line value starts at the field depth the reader
// demands.
func PrefixAll(p *core.Prog, r *core.Report) {
	r.Rule("PREFIX-ALL", "in seqio.GenBank.String every non-constant operand written behind a field label (`\"LABEL   \" + value + ...`) is AddPrefix(value, indent) (directly, or a variable last assigned that), except the reviewed single-line fields ACCESSION, VERSION, PUBMED: a continuation line written at column 1 ends the field for the reader", 10)
	info := p.Info(core.PkgSeqio)
	fd := p.FuncDecl(core.PkgSeqio, "GenBank.String")
	if fd == nil || fd.Body == nil {
		r.Und("PREFIX-ALL", "seqio.GenBank.String|anchor", "-", "anchor-unresolved")
		return
	}
	r.Fn("seqio.GenBank.String")
	asg := core.Assigns(info, fd.Body)
	var flatten func(e ast.Expr, out *[]ast.Expr)
	flatten = func(e ast.Expr, out *[]ast.Expr) {
		if be, ok := ast.Unparen(e).(*ast.BinaryExpr); ok && be.Op == token.ADD {
			flatten(be.X, out)
			flatten(be.Y, out)
			return
		}
		*out = append(*out, e)
	}
	isPrefixed := func(e ast.Expr) bool {
		o := ast.Unparen(core.OriginBefore(info, asg, e))
		c, ok := o.(*ast.CallExpr)
		return ok && core.IsCallTo(info, c, core.PkgSeqio+".AddPrefix") && len(c.Args) == 2
	}
	seen := map[string]int{}
	for _, c := range core.Calls(fd.Body) {
		sel, ok := c.Fun.(*ast.SelectorExpr)
		if !ok || sel.Sel.Name != "WriteString" || len(c.Args) != 1 {
			continue
		}
		var ops []ast.Expr
		flatten(c.Args[0], &ops)
		if len(ops) < 2 {
			continue
		}
		head, ok := core.ConstString(info, ops[0])
		if !ok {
			continue
		}
		_, name, _, rest := label(head)
		if name == "" || rest != "" {
			continue
		}
		seen[name]++
		key := "seqio.GenBank.String|" + name
		if seen[name] > 1 {
			key += fmt.Sprintf("#%d", seen[name])
		}
		var bad ast.Expr
		for _, o := range ops[1:] {
			if _, isConst := core.ConstString(info, o); isConst {
				continue
			}
			if isNumberText(info, o) {
				continue // the decimal text of an integer has no line break
			}
			if !isPrefixed(o) {
				bad = o
			}
		}
		switch {
		case bad == nil:
			r.Ok("PREFIX-ALL", key, p.Pos(c.Pos()), "value written through AddPrefix(_, indent)")
		case singleLine[name] != "":
			r.Ok("PREFIX-ALL", key, p.Pos(c.Pos()), "reviewed single-line field: "+singleLine[name])
		default:
			r.Bad("PREFIX-ALL", key, p.Pos(bad.Pos()), "`"+types.ExprString(bad)+"` is written behind the "+name+" label without AddPrefix(_, indent): the second line of a multi-line value starts in column 1, the reader ends the field there and skips or misreads what follows")
		}
	}
}

// DBLinkAgree decides DBLINK-AGREE: the reader accepts every `key: value` line
// the writer can emit, the empty value included, and cuts it at the writer's
// separator.
func DBLinkAgree(p *core.Prog, r *core.Report) {
	r.Rule("DBLINK-AGREE", "the DBLINK writer emits `%s: %s` (a separator of K bytes starting with ':'); the reader finds ':' at i, takes the value from s[i+K:] and rejects the line exactly when len(s) < i+K, so the empty value the writer can produce is read back", 1)
	info := p.Info(core.PkgSeqio)
	w := p.FuncDecl(core.PkgSeqio, "GenBank.String")
	rd := p.FuncDecl(core.PkgSeqio, "genbankDBLinkPairParser")
	if w == nil || rd == nil || w.Body == nil || rd.Body == nil {
		r.Und("DBLINK-AGREE", "seqio.DBLINK|anchor", "-", "anchor-unresolved")
		return
	}
	r.Fn("seqio.genbankDBLinkPairParser")
	// writer separator: the Sprintf format with two %s whose operands are .Key/.Value
	sep := ""
	for _, c := range core.Calls(w.Body) {
		args := c.Args
		if core.IsCallTo(info, c, "fmt.Fprintf") && len(args) == 4 {
			args = args[1:] // fmt.Fprintf(&b, f, key, value)
		} else if !core.IsCallTo(info, c, "fmt.Sprintf") || len(args) != 3 {
			continue
		}
		f, ok := core.ConstString(info, args[0])
		k, okk := ast.Unparen(args[1]).(*ast.SelectorExpr)
		v, okv := ast.Unparen(args[2]).(*ast.SelectorExpr)
		if !ok || !okk || !okv || k.Sel.Name != "Key" || v.Sel.Name != "Value" {
			continue
		}
		if i := strings.Index(f, "%s"); i == 0 {
			if j := strings.Index(f[2:], "%s"); j >= 0 {
				sep = f[2 : 2+j]
			}
		}
	}
	if sep == "" {
		// the same line written as a concatenation: X.Key + SEP + X.Value + ...
		ast.Inspect(w.Body, func(n ast.Node) bool {
			be, ok := n.(*ast.BinaryExpr)
			if !ok || be.Op != token.ADD || sep != "" {
				return true
			}
			var ops []ast.Expr
			var flat func(e ast.Expr)
			flat = func(e ast.Expr) {
				if b, ok := ast.Unparen(e).(*ast.BinaryExpr); ok && b.Op == token.ADD {
					flat(b.X)
					flat(b.Y)
					return
				}
				ops = append(ops, ast.Unparen(e))
			}
			flat(be)
			for i := 0; i+2 < len(ops); i++ {
				k, okk := ops[i].(*ast.SelectorExpr)
				v, okv := ops[i+2].(*ast.SelectorExpr)
				f, okf := core.ConstString(info, ops[i+1])
				if okk && okv && okf && k.Sel.Name == "Key" && v.Sel.Name == "Value" {
					sep = f
				}
			}
			return true
		})
	}
	if sep == "" || sep[0] != ':' {
		r.Und("DBLINK-AGREE", "seqio.DBLINK", p.Pos(w.Pos()), "cannot find the writer's `key<sep>value` format")
		return
	}
	K := int64(len(sep))
	// reader: s[i+K:] and the guard
	var cut int64 = -1
	var iObj types.Object
	var sObj types.Object
	// the cutting may sit in the parser itself or in a helper of the package it calls
	bodies := []*ast.BlockStmt{rd.Body}
	for _, c := range core.Calls(rd.Body) {
		if fn := core.Callee(info, c); fn != nil && fn.Pkg() != nil && fn.Pkg().Path() == core.PkgSeqio {
			if hd := p.FuncDecl(core.PkgSeqio, fn.Name()); hd != nil && hd.Body != nil && hd.Recv == nil && hd != rd {
				bodies = append(bodies, hd.Body)
			}
		}
	}
	readerBody := rd.Body
	for _, b := range bodies {
		found := false
		ast.Inspect(b, func(n ast.Node) bool {
			if se, ok := n.(*ast.SliceExpr); ok && se.Low != nil && se.High == nil {
				if be, ok := ast.Unparen(se.Low).(*ast.BinaryExpr); ok && be.Op == token.ADD {
					if _, ok := core.ConstInt(info, be.Y); ok {
						found = true
					}
				}
			}
			return !found
		})
		if found {
			readerBody = b
			break
		}
	}
	ast.Inspect(readerBody, func(n ast.Node) bool {
		se, ok := n.(*ast.SliceExpr)
		if !ok || se.Low == nil || se.High != nil {
			return true
		}
		be, ok := ast.Unparen(se.Low).(*ast.BinaryExpr)
		if !ok || be.Op != token.ADD {
			return true
		}
		if c, ok := core.ConstInt(info, be.Y); ok {
			cut, iObj, sObj = c, core.ObjOf(info, be.X), core.ObjOf(info, se.X)
		}
		return true
	})
	if cut < 0 || iObj == nil {
		r.Und("DBLINK-AGREE", "seqio.DBLINK", p.Pos(rd.Pos()), "cannot find the reader's value slice s[i+K:]")
		return
	}
	// guard: if len(s) < i+T { return error }
	var thr int64 = -1
	var guardPos token.Pos
	ast.Inspect(readerBody, func(n ast.Node) bool {
		is, ok := n.(*ast.IfStmt)
		if !ok || len(is.Body.List) == 0 {
			return true
		}
		if _, isRet := is.Body.List[len(is.Body.List)-1].(*ast.ReturnStmt); !isRet {
			return true
		}
		be, ok := ast.Unparen(is.Cond).(*ast.BinaryExpr)
		if !ok {
			return true
		}
		lc, ok := ast.Unparen(be.X).(*ast.CallExpr)
		if !ok || !core.IsBuiltin(info, lc, "len") || core.ObjOf(info, lc.Args[0]) != sObj {
			return true
		}
		sum, ok := ast.Unparen(be.Y).(*ast.BinaryExpr)
		if !ok || sum.Op != token.ADD || core.ObjOf(info, sum.X) != iObj {
			return true
		}
		c, ok := core.ConstInt(info, sum.Y)
		if !ok {
			return true
		}
		switch be.Op {
		case token.LSS:
			thr = c
		case token.LEQ:
			thr = c + 1
		}
		guardPos = is.Pos()
		return true
	})
	switch {
	case cut != K:
		r.Bad("DBLINK-AGREE", "seqio.DBLINK", p.Pos(rd.Pos()), fmt.Sprintf("the writer separates key and value by %q (%d bytes) but the reader skips %d bytes after the colon", sep, K, cut))
	case thr < 0:
		r.Bad("DBLINK-AGREE", "seqio.DBLINK", p.Pos(rd.Pos()), "the reader slices s[i+K:] without a length guard")
	case thr != K:
		r.Bad("DBLINK-AGREE", "seqio.DBLINK", p.Pos(guardPos), fmt.Sprintf("the reader rejects lines shorter than i+%d bytes; the writer's shortest line (empty value) has exactly i+%d: a record with an empty DBLINK value is written but not read back", thr, K))
	default:
		r.Ok("DBLINK-AGREE", "seqio.DBLINK", p.Pos(guardPos), fmt.Sprintf("separator %q, value at s[i+%d:], rejected only when len(s) < i+%d", sep, K, K))
	}
}

// isNumberText: strconv.Itoa / FormatInt / FormatUint of something: digits and a sign.
func isNumberText(info *types.Info, e ast.Expr) bool {
	c, ok := ast.Unparen(e).(*ast.CallExpr)
	return ok && core.IsCallTo(info, c, "strconv.Itoa", "strconv.FormatInt", "strconv.FormatUint")
}

package tables

import (
	"fmt"
	"go/ast"
	"go/token"
	"go/types"

	"gtsverif/core"
)

// LocusLength decides LOCUS-LENGTH on GenBank.String: the length on the LOCUS
// line is the number of residues of the record. Another source (the span of
// the CONTIG line) may stand in only when the record has no residues. No edit
// touches the CONTIG field, so after any insert / delete / slice a length taken
// from it first is stale: the LOCUS line then disagrees with the ORIGIN block
// and gts rejects its own output.
func LocusLength(p *core.Prog, r *core.Report) {
	r.Rule("LOCUS-LENGTH", "the integer GenBank.String prints on the LOCUS line is a variable whose unconditional definition is the residue count (Origin.Len(), gts.Len(gb), len(gb.Bytes())); every other assignment to it sits under `if length == 0`", 1)
	info := p.Info(core.PkgSeqio)
	fd := p.FuncDecl(core.PkgSeqio, "GenBank.String")
	key := "seqio.GenBank.String|LOCUS-length"
	if fd == nil || fd.Body == nil {
		r.Und("LOCUS-LENGTH", key+"|anchor", "-", "anchor-unresolved")
		return
	}
	var call *ast.CallExpr
	for _, c := range core.Calls(fd.Body) {
		if !core.IsCallTo(info, c, "fmt.Sprintf", "fmt.Fprintf") {
			continue
		}
		for _, a := range c.Args {
			if s, ok := core.ConstString(info, a); ok && s == "LOCUS" {
				call = c
			}
		}
	}
	if call == nil {
		r.Und("LOCUS-LENGTH", key, p.Pos(fd.Pos()), "no Sprintf/Fprintf with the operand \"LOCUS\" found")
		return
	}
	var lenArg ast.Expr
	n := 0
	for _, a := range call.Args {
		if b, ok := info.TypeOf(a).(*types.Basic); ok && b.Info()&types.IsInteger != 0 { // a plain integer, not a named enumeration (Topology)
			if _, isConst := core.ConstInt(info, a); !isConst {
				lenArg = a
				n++
			}
		}
	}
	if n != 1 {
		r.Und("LOCUS-LENGTH", key, p.Pos(call.Pos()), fmt.Sprintf("%d integer operands on the LOCUS line, expected the length alone", n))
		return
	}
	isCount := func(e ast.Expr) bool {
		c, ok := ast.Unparen(e).(*ast.CallExpr)
		if !ok {
			return false
		}
		if core.IsCallTo(info, c, core.PkgSeqio+".Origin.Len", core.PkgGts+".Len", core.PkgSeqio+".GenBank.Len") {
			return true
		}
		if id, ok := ast.Unparen(c.Fun).(*ast.Ident); ok && id.Name == "len" && len(c.Args) == 1 {
			if bc, ok := ast.Unparen(c.Args[0]).(*ast.CallExpr); ok {
				if fn := core.Callee(info, bc); fn != nil && fn.Name() == "Bytes" {
					return true
				}
			}
		}
		return false
	}
	if isCount(lenArg) {
		r.Ok("LOCUS-LENGTH", key, p.Pos(call.Pos()), "the residue count is printed directly")
		return
	}
	o := core.ObjOf(info, lenArg)
	if o == nil {
		r.Und("LOCUS-LENGTH", key, p.Pos(lenArg.Pos()), "the length operand is neither the residue count nor a variable")
		return
	}
	asg := core.Assigns(info, fd.Body)
	par := core.Parents(fd.Body)
	defs := asg[o]
	if len(defs) == 0 {
		r.Und("LOCUS-LENGTH", key, p.Pos(lenArg.Pos()), "no definition of the length variable found")
		return
	}
	uncond := 0
	for _, d := range defs {
		// the guards around this assignment
		var guards []*ast.IfStmt
		for m := par[d.Node]; m != nil; m = par[m] {
			if is, ok := m.(*ast.IfStmt); ok {
				guards = append(guards, is)
			}
		}
		if len(guards) == 0 {
			uncond++
			if d.RHS == nil || !isCount(d.RHS) {
				r.Bad("LOCUS-LENGTH", key, p.Pos(d.Pos), fmt.Sprintf("the length on the LOCUS line is first taken from `%s`, not from the residues: no edit updates that source, so after an insert, delete or slice of a record that has it the LOCUS line declares a stale length, the ORIGIN block holds another number of residues, and gts rejects the record it wrote", exprText(d.RHS)))
				return
			}
			continue
		}
		okGuard := false
		for _, is := range guards {
			be, ok := ast.Unparen(is.Cond).(*ast.BinaryExpr)
			if !ok || core.ObjOf(info, be.X) != o {
				continue
			}
			k, isK := core.ConstInt(info, be.Y)
			inThen := is.Body.Pos() <= d.Pos && d.Pos < is.Body.End()
			if isK && inThen && ((be.Op == token.EQL && k == 0) || (be.Op == token.LEQ && k == 0) || (be.Op == token.LSS && k == 1)) {
				okGuard = true
			}
		}
		if !okGuard {
			r.Bad("LOCUS-LENGTH", key, p.Pos(d.Pos), "the length variable is re-assigned outside an `if length == 0` fallback: the residue count can be overridden by another source")
			return
		}
	}
	if uncond == 0 {
		r.Bad("LOCUS-LENGTH", key, p.Pos(lenArg.Pos()), "the length variable has no unconditional definition from the residues")
		return
	}
	r.Ok("LOCUS-LENGTH", key, p.Pos(call.Pos()), "residue count first, other sources only when it is zero")
}

func exprText(e ast.Expr) string {
	if e == nil {
		return "a multi-value call"
	}
	return types.ExprString(e)
}

// ResidueVerbatim decides RESIDUE-VERBATIM on NewOrigin and (*Origin).Bytes:
// the two conversions between residues and ORIGIN block move the residues
// without looking at them. Every store into the buffer under construction is a
// constant (blank, newline), the index text, or bytes of the source taken as
// they are. A conversion that rewrites residues on the way (case folding, a
// filter) is no longer undone by the opposite one - and since (*Origin).Bytes
// switches a shared *Origin from "text as read" to "re-encode on demand", the
// difference shows in a record that was merely passed to an operation.
func ResidueVerbatim(p *core.Prog, r *core.Report) {
	r.Rule("RESIDUE-VERBATIM", "in seqio.NewOrigin and (*Origin).Bytes every store into the buffer being built is a constant byte, formatted index text, or bytes of the source slice copied unchanged (copy(q[..], p[a:b]), q[k] = p[j], q[k] = v with v an unmodified range value over p)", 2)
	info := p.Info(core.PkgSeqio)
	for _, name := range []string{"NewOrigin", "Origin.Bytes"} {
		fd := p.FuncDecl(core.PkgSeqio, name)
		key := "seqio." + name
		if fd == nil || fd.Body == nil {
			r.Und("RESIDUE-VERBATIM", key+"|anchor", "-", "anchor-unresolved")
			continue
		}
		asg := core.Assigns(info, fd.Body)
		params := map[types.Object]bool{}
		for _, f := range fd.Type.Params.List {
			for _, nm := range f.Names {
				params[info.Defs[nm]] = true
			}
		}
		// the buffer under construction: the local made with make([]byte, ..)
		dst := map[types.Object]bool{}
		for o, as := range asg {
			for _, a := range as {
				if c, ok := a.RHS.(*ast.CallExpr); ok && core.IsBuiltin(info, c, "make") {
					if _, isSlice := info.TypeOf(c).Underlying().(*types.Slice); isSlice {
						dst[o] = true
					}
				}
			}
		}
		base := func(e ast.Expr) types.Object {
			for {
				switch x := ast.Unparen(e).(type) {
				case *ast.SliceExpr:
					e = x.X
				case *ast.IndexExpr:
					e = x.X
				default:
					return core.ObjOf(info, e)
				}
			}
		}
		isSource := func(e ast.Expr) bool {
			e = ast.Unparen(e)
			if t := info.TypeOf(e); t != nil {
				if b, ok := t.Underlying().(*types.Basic); ok && b.Info()&types.IsString != 0 {
					// the index text: a string produced by fmt.Sprintf / strconv of an integer
					o := core.Origin(info, asg, e)
					if c, ok := ast.Unparen(o).(*ast.CallExpr); ok && core.IsCallTo(info, c, "fmt.Sprintf", "strconv.Itoa", "strconv.FormatInt") {
						return true
					}
					if _, isConst := core.ConstString(info, e); isConst {
						return true
					}
					return false
				}
			}
			b := base(e)
			if b == nil {
				// o.Buffer read directly
				if se, ok := ast.Unparen(core.Origin(info, asg, stripIndex(e))).(*ast.SelectorExpr); ok && se.Sel.Name == "Buffer" {
					return true
				}
				return false
			}
			if dst[b] {
				return false
			}
			if params[b] {
				return true
			}
			// a local that only ever names the receiver's buffer or a parameter
			defs := asg[b]
			if len(defs) == 0 {
				return false
			}
			for _, d := range defs {
				if d.RHS == nil {
					return false
				}
				if se, ok := ast.Unparen(d.RHS).(*ast.SelectorExpr); ok && se.Sel.Name == "Buffer" {
					continue
				}
				if params[core.ObjOf(info, d.RHS)] {
					continue
				}
				return false
			}
			return true
		}
		bad, n := false, 0
		ast.Inspect(fd.Body, func(nd ast.Node) bool {
			switch x := nd.(type) {
			case *ast.CallExpr:
				if core.IsBuiltin(info, x, "copy") && len(x.Args) == 2 && dst[base(x.Args[0])] {
					n++
					if !isSource(x.Args[1]) {
						bad = true
						r.Bad("RESIDUE-VERBATIM", fmt.Sprintf("%s|store#%d", key, n), p.Pos(x.Pos()), fmt.Sprintf("`%s` copies something other than bytes of the source or the index text into the buffer", types.ExprString(x)))
					}
				}
			case *ast.AssignStmt:
				for i, l := range x.Lhs {
					ix, ok := ast.Unparen(l).(*ast.IndexExpr)
					if !ok || !dst[core.ObjOf(info, ix.X)] || i >= len(x.Rhs) {
						continue
					}
					n++
					rhs := x.Rhs[i]
					if _, isConst := core.ConstInt(info, rhs); isConst {
						continue
					}
					if rix, ok := ast.Unparen(rhs).(*ast.IndexExpr); ok && isSource(rix) {
						continue
					}
					if o := core.ObjOf(info, rhs); o != nil {
						defs := asg[o]
						if len(defs) == 1 {
							if rs, ok := defs[0].Node.(*ast.RangeStmt); ok && defs[0].Idx == 1 && isSource(rs.X) {
								continue
							}
						}
					}
					bad = true
					r.Bad("RESIDUE-VERBATIM", fmt.Sprintf("%s|store#%d", key, n), p.Pos(x.Pos()), fmt.Sprintf("`%s` stores a byte that is neither a constant nor a byte of the source taken as it is: the residues are rewritten on their way into the block (folded to lower case, say), so converting to a block and back is no longer the identity, and a GenBank record whose residues were merely read by an operation is written out differently afterwards", types.ExprString(l)+" = "+types.ExprString(rhs)))
				}
			}
			return true
		})
		if n == 0 {
			r.Und("RESIDUE-VERBATIM", key, p.Pos(fd.Pos()), "no store into a buffer made in this function found")
			continue
		}
		if !bad {
			r.Ok("RESIDUE-VERBATIM", key, p.Pos(fd.Pos()), fmt.Sprintf("%d stores: constants, index text and unchanged source bytes", n))
		}
	}
}

func stripIndex(e ast.Expr) ast.Expr {
	for {
		switch x := ast.Unparen(e).(type) {
		case *ast.SliceExpr:
			e = x.X
		case *ast.IndexExpr:
			e = x.X
		default:
			return e
		}
	}
}

// FastFallback decides FAST-FALLBACK on makeGenbankOriginParser: the fast
// validation of the ORIGIN block only ever says "canonical, take it as it is".
// When it fails the block is read line by line, and only that reader's verdict
// counts: validateOrigin rejects every block with CRLF line ends, trailing
// blanks or any other layout the slow reader accepts, so returning its error
// rejects records the other path reads (which blocks reach it depends on a
// coincidence of sizes: with CRLF the window of toOriginLength(n) bytes ends on
// a line feed for about one length in 77).
func FastFallback(p *core.Prog, r *core.Report) {
	r.Rule("FAST-FALLBACK", "in makeGenbankOriginParser every path on which validateOrigin reported an error runs the line-by-line parser (slowGenBankOriginParser) before the parser returns: the fast path accepts or stands aside, it never rejects", 1)
	info := p.Info(core.PkgSeqio)
	fd := p.FuncDecl(core.PkgSeqio, "makeGenbankOriginParser")
	key := "seqio.makeGenbankOriginParser|fallback"
	if fd == nil || fd.Body == nil {
		r.Und("FAST-FALLBACK", key+"|anchor", "-", "anchor-unresolved")
		return
	}
	// the innermost function literal that calls validateOrigin
	var body *ast.BlockStmt
	var vc *ast.CallExpr
	ast.Inspect(fd.Body, func(n ast.Node) bool {
		if fl, ok := n.(*ast.FuncLit); ok {
			for _, c := range core.Calls(fl.Body) {
				if core.IsCallTo(info, c, core.PkgSeqio+".validateOrigin") {
					body, vc = fl.Body, c
				}
			}
		}
		return true
	})
	if vc == nil {
		r.Und("FAST-FALLBACK", key, p.Pos(fd.Pos()), "no call of validateOrigin inside a parser function literal")
		return
	}
	asg := core.Assigns(info, body)
	par := core.Parents(body)
	var errObj types.Object
	if as, ok := par[ast.Node(vc)].(*ast.AssignStmt); ok && len(as.Lhs) == 1 {
		errObj = core.ObjOf(info, as.Lhs[0])
	}
	isSlowRun := func(c *ast.CallExpr) bool {
		// slowGenBankOriginParser(length)(state, result), or a variable holding its result called
		if inner, ok := ast.Unparen(c.Fun).(*ast.CallExpr); ok && core.IsCallTo(info, inner, core.PkgSeqio+".slowGenBankOriginParser") {
			return true
		}
		if o := core.ObjOf(info, c.Fun); o != nil {
			for _, a := range asg[o] {
				if rc, ok := a.RHS.(*ast.CallExpr); ok && core.IsCallTo(info, rc, core.PkgSeqio+".slowGenBankOriginParser") {
					return true
				}
			}
		}
		// a method Parse on such a variable
		if sel, ok := ast.Unparen(c.Fun).(*ast.SelectorExpr); ok {
			if o := core.ObjOf(info, sel.X); o != nil {
				for _, a := range asg[o] {
					if rc, ok := a.RHS.(*ast.CallExpr); ok && core.IsCallTo(info, rc, core.PkgSeqio+".slowGenBankOriginParser") {
						return true
					}
				}
			}
		}
		return false
	}
	fl := core.NewFlow(info, body)
	from := fl.Find(core.EnclosingStmt(par, vc))
	if !from.Valid() {
		// the call sits in the condition of an if: start at the entry
		from = fl.Entry()
	}
	var badRet *ast.ReturnStmt
	decided := false
	// state: 0 = outcome of the validation unknown, 1 = it failed, 2 = it succeeded
	core.Scan(fl, from, 0, core.Stepper[int]{
		Node: func(s int, n ast.Node) (int, bool) {
			for _, c := range core.NodeCalls(n) {
				if isSlowRun(c) {
					return s, true
				}
			}
			if rs, ok := n.(*ast.ReturnStmt); ok {
				if s == 1 && badRet == nil {
					badRet = rs
				}
				return s, true
			}
			return s, false
		},
		Edge: func(s int, cond ast.Expr, taken bool) int {
			core.Facts(cond, taken, func(atom ast.Expr, val bool) {
				be, ok := ast.Unparen(atom).(*ast.BinaryExpr)
				if !ok || (be.Op != token.EQL && be.Op != token.NEQ) || !core.IsNil(info, be.Y) {
					return
				}
				isV := ast.Unparen(be.X) == ast.Expr(vc) || (errObj != nil && core.ObjOf(info, be.X) == errObj)
				if !isV || s != 0 {
					return
				}
				decided = true
				if (be.Op == token.NEQ) == val {
					s = 1
				} else {
					s = 2
				}
			})
			return s
		},
	})
	switch {
	case !decided:
		r.Und("FAST-FALLBACK", key, p.Pos(vc.Pos()), "no branch on the result of validateOrigin found")
	case badRet != nil:
		r.Bad("FAST-FALLBACK", key, p.Pos(badRet.Pos()), "a path on which validateOrigin failed returns without having run the line-by-line parser: the fast validator rejects every block that is not byte for byte canonical (CRLF line ends, trailing blanks), so whenever such a block is handed to it alone the record is refused although the slow path reads it (CRLF input of 721, 782, 843 ... residues, where the requested window happens to end on a line feed)")
	default:
		r.Ok("FAST-FALLBACK", key, p.Pos(vc.Pos()), "a failed validation always falls back to the line-by-line parser")
	}
}

// SearchShortcut decides SEARCH-SHORTCUT on gts.Search and the helpers it
// calls in package gts: an early "no hit" answer is justified by lengths alone
// (an empty operand, a query longer than the sequence). A shortcut that looks
// at the content - "the first residue of the query does not occur in ..." -
// needs its window exactly right, and one byte short loses the hit at the last
// possible offset (a query that matches the end of the sequence, or the whole
// of it).
func SearchShortcut(p *core.Prog, r *core.Report) {
	r.Rule("SEARCH-SHORTCUT", "in gts.Search and the gts helpers that do its lookup every return of no hits in front of the lookup is guarded by comparisons of lengths only (len / Len / Bytes and arithmetic on them): no content-based pre-filter decides that there is no occurrence", 1)
	info := p.Info(core.PkgGts)
	fns := []*ast.FuncDecl{}
	seen := map[*ast.FuncDecl]bool{}
	var add func(name string)
	add = func(name string) {
		fd := p.FuncDecl(core.PkgGts, name)
		if fd == nil || fd.Body == nil || seen[fd] {
			return
		}
		seen[fd] = true
		fns = append(fns, fd)
		for _, c := range core.Calls(fd.Body) {
			if fn := core.Callee(info, c); fn != nil && fn.Pkg() != nil && fn.Pkg().Path() == core.PkgGts && !fn.Exported() {
				if sig, ok := fn.Type().(*types.Signature); ok && sig.Recv() == nil {
					add(fn.Name())
				}
			}
		}
	}
	add("Search")
	if len(fns) == 0 {
		r.Und("SEARCH-SHORTCUT", "gts.Search|anchor", "-", "anchor-unresolved")
		return
	}
	for _, fd := range fns {
		key := "gts." + fd.Name.Name
		// only functions that return a slice (hits, indices)
		if fd.Type.Results == nil || len(fd.Type.Results.List) != 1 {
			continue
		}
		if _, isSlice := info.TypeOf(fd.Type.Results.List[0].Type).Underlying().(*types.Slice); !isSlice {
			continue
		}
		if elem := info.TypeOf(fd.Type.Results.List[0].Type).Underlying().(*types.Slice).Elem(); types.TypeString(elem, nil) == "byte" {
			continue // a byte transformer (the case fold), not a lookup
		}
		asg := core.Assigns(info, fd.Body)
		par := core.Parents(fd.Body)
		var lengthOnly func(e ast.Expr, depth int) (bool, string)
		lengthOnly = func(e ast.Expr, depth int) (bool, string) {
			ok, why := true, ""
			ast.Inspect(e, func(n ast.Node) bool {
				if !ok {
					return false
				}
				switch x := n.(type) {
				case *ast.CallExpr:
					if core.IsBuiltin(info, x, "len") || core.IsCallTo(info, x, core.PkgGts+".Len") {
						return false // whatever is measured, only its length is used
					}
					if fn := core.Callee(info, x); fn != nil && (fn.Name() == "Len") {
						return false
					}
					ok, why = false, "`"+types.ExprString(x)+"`"
				case *ast.IndexExpr, *ast.SliceExpr:
					ok, why = false, "`"+types.ExprString(x.(ast.Expr))+"` (content of an operand)"
				case *ast.Ident:
					if o, isVar := info.Uses[x].(*types.Var); isVar && depth < 4 {
						for _, a := range asg[o] {
							if a.RHS == nil {
								ok, why = false, "`"+x.Name+"`"
								return false
							}
							if g, w := lengthOnly(a.RHS, depth+1); !g {
								ok, why = false, w
							}
						}
					}
				}
				return ok
			})
			return ok, why
		}
		n := 0
		bad := false
		for _, rs := range core.Returns(fd.Body) {
			if len(rs.Results) != 1 {
				continue
			}
			empty := core.IsNil(info, rs.Results[0])
			if cl, ok := ast.Unparen(rs.Results[0]).(*ast.CompositeLit); ok && len(cl.Elts) == 0 {
				empty = true
			}
			if !empty {
				continue
			}
			n++
			for m := par[ast.Node(rs)]; m != nil; m = par[m] {
				is, ok := m.(*ast.IfStmt)
				if !ok {
					continue
				}
				if g, why := lengthOnly(is.Cond, 0); !g {
					bad = true
					r.Bad("SEARCH-SHORTCUT", fmt.Sprintf("%s|empty-return#%d", key, n), p.Pos(rs.Pos()), fmt.Sprintf("%s answers \"no hit\" under a condition that looks at %s, not only at lengths: a content-based shortcut in front of the lookup misses occurrences whenever its window is not exactly the set of viable offsets (Search(\"ccccat\", \"at\") and a query equal to the whole sequence find nothing when the window stops one byte short)", fd.Name.Name, why))
				}
			}
		}
		if !bad {
			r.Ok("SEARCH-SHORTCUT", key, p.Pos(fd.Pos()), fmt.Sprintf("%d early empty answers, all decided by lengths", n))
		}
	}
}

package tables

import (
	"fmt"
	"go/ast"
	"go/token"
	"go/types"

	"gtsverif/core"
)

// LocusLength decides LOCUS-LENGTH on GenBank.String: the length on the LOCUS
// line is the number of residues of the record. Another source (the span of
// the CONTIG line) may stand in only when the record has no residues. No edit
// touches the CONTIG field, so after any insert / delete / slice a length taken
// from it first is stale: the LOCUS line then disagrees with the ORIGIN block
// and gts rejects its own output.
func LocusLength(p *core.Prog, r *core.Report) {
	r.Rule("LOCUS-LENGTH", "the integer GenBank.String prints on the LOCUS line is a variable whose unconditional definition is the residue count (Origin.Len(), gts.Len(gb), len(gb.Bytes())); every other assignment to it sits under `if length == 0`", 1)
	info := p.Info(core.PkgSeqio)
	fd := p.FuncDecl(core.PkgSeqio, "GenBank.String")
	key := "seqio.GenBank.String|LOCUS-length"
	if fd == nil || fd.Body == nil {
		r.Und("LOCUS-LENGTH", key+"|anchor", "-", "anchor-unresolved")
		return
	}
	var call *ast.CallExpr
	for _, c := range core.Calls(fd.Body) {
		if !core.IsCallTo(info, c, "fmt.Sprintf", "fmt.Fprintf") {
			continue
		}
		for _, a := range c.Args {
			if s, ok := core.ConstString(info, a); ok && s == "LOCUS" {
				call = c
			}
		}
	}
	if call == nil {
		r.Und("LOCUS-LENGTH", key, p.Pos(fd.Pos()), "no Sprintf/Fprintf with the operand \"LOCUS\" found")
		return
	}
	var lenArg ast.Expr
	n := 0
	for _, a := range call.Args {
		if b, ok := info.TypeOf(a).(*types.Basic); ok && b.Info()&types.IsInteger != 0 { // a plain integer, not a named enumeration (Topology)
			if _, isConst := core.ConstInt(info, a); !isConst {
				lenArg = a
				n++
			}
		}
	}
	if n != 1 {
		r.Und("LOCUS-LENGTH", key, p.Pos(call.Pos()), fmt.Sprintf("%d integer operands on the LOCUS line, expected the length alone", n))
		return
	}
	isCount := func(e ast.Expr) bool {
		c, ok := ast.Unparen(e).(*ast.CallExpr)
		if !ok {
			return false
		}
		if core.IsCallTo(info, c, core.PkgSeqio+".Origin.Len", core.PkgGts+".Len", core.PkgSeqio+".GenBank.Len") {
			return true
		}
		if id, ok := ast.Unparen(c.Fun).(*ast.Ident); ok && id.Name == "len" && len(c.Args) == 1 {
			if bc, ok := ast.Unparen(c.Args[0]).(*ast.CallExpr); ok {
				if fn := core.Callee(info, bc); fn != nil && fn.Name() == "Bytes" {
					return true
				}
			}
		}
		return false
	}
	if isCount(lenArg) {
		r.Ok("LOCUS-LENGTH", key, p.Pos(call.Pos()), "the residue count is printed directly")
		return
	}
	o := core.ObjOf(info, lenArg)
	if o == nil {
		r.Und("LOCUS-LENGTH", key, p.Pos(lenArg.Pos()), "the length operand is neither the residue count nor a variable")
		return
	}
	asg := core.Assigns(info, fd.Body)
	par := core.Parents(fd.Body)
	defs := asg[o]
	if len(defs) == 0 {
		r.Und("LOCUS-LENGTH", key, p.Pos(lenArg.Pos()), "no definition of the length variable found")
		return
	}
	uncond := 0
	for _, d := range defs {
		// the guards around this assignment
		var guards []*ast.IfStmt
		for m := par[d.Node]; m != nil; m = par[m] {
			if is, ok := m.(*ast.IfStmt); ok {
				guards = append(guards, is)
			}
		}
		if len(guards) == 0 {
			uncond++
			if d.RHS == nil || !isCount(d.RHS) {
				r.Bad("LOCUS-LENGTH", key, p.Pos(d.Pos), fmt.Sprintf("the length on the LOCUS line is first taken from `%s`, not from the residues: no edit updates that source, so after an insert, delete or slice of a record that has it the LOCUS line declares a stale length, the ORIGIN block holds another number of residues, and gts rejects the record it wrote", exprText(d.RHS)))
				return
			}
			continue
		}
		okGuard := false
		for _, is := range guards {
			be, ok := ast.Unparen(is.Cond).(*ast.BinaryExpr)
			if !ok || core.ObjOf(info, be.X) != o {
				continue
			}
			k, isK := core.ConstInt(info, be.Y)
			inThen := is.Body.Pos() <= d.Pos && d.Pos < is.Body.End()
			if isK && inThen && ((be.Op == token.EQL && k == 0) || (be.Op == token.LEQ && k == 0) || (be.Op == token.LSS && k == 1)) {
				okGuard = true
			}
		}
		if !okGuard {
			r.Bad("LOCUS-LENGTH", key, p.Pos(d.Pos), "the length variable is re-assigned outside an `if length == 0` fallback: the residue count can be overridden by another source")
			return
		}
	}
	if uncond == 0 {
		r.Bad("LOCUS-LENGTH", key, p.Pos(lenArg.Pos()), "the length variable has no unconditional definition from the residues")
		return
	}
	r.Ok("LOCUS-LENGTH", key, p.Pos(call.Pos()), "residue count first, other sources only when it is zero")
}

func exprText(e ast.Expr) string {
	if e == nil {
		return "a multi-value call"
	}
	return types.ExprString(e)
}

package tables

import (
	"fmt"
	"go/ast"
	"go/token"
	"go/types"
	"strings"

	"gtsverif/core"
)

// C17 decides the structural part of "FASTA output reads back identically":
// the framing bytes of the writer and the reader agree and nothing but line
// terminators is added to or removed from the residues.
//
//	FASTA-WRITE  Fasta.WriteTo prints ">%s\n%s\n" of (description with every
//	             newline replaced, residues wrapped by wrap.Force at a
//	             positive constant width)
//	FASTA-READ   FastaParser is Seq('>', Line, Until(Any('>', End))); the
//	             description is child 1, the residues are child 2 split at
//	             '\n', each line stripped of a trailing '\r', joined with nothing
//	FASTA-DESC   FastaWriter.WriteSeq hands on the sequence's bytes unchanged
//	             and takes the description from the metadata string / Stringer;
//	             GenBankFields.String is Version[:head+1-tail] Definition
func C17(p *core.Prog, r *core.Report) {
	r.Rule("FASTA-WRITE", "seqio.Fasta.WriteTo formats \">%s\\n%s\\n\" with (description, residues) in that order; the description has every \"\\n\" replaced (strings.ReplaceAll, or Replace with a negative count); the residues are wrapped by wrap.Force(string(f.Data), N) with a positive constant N and reach the format unmodified", 3)
	r.Rule("FASTA-READ", "seqio.FastaParser is pars.Seq('>', pars.Line, pars.Until(pars.Any('>', pars.End))); its Map callback takes the description from child 1 and the residues from child 2 by bytes.Split at \"\\n\", stripping a trailing \"\\r\" from every line, and bytes.Join with nil", 4)
	r.Rule("FASTA-DESC", "seqio.FastaWriter.WriteSeq builds Fasta{info, v.Bytes()} / Fasta{info.String(), v.Bytes()} for foreign sequences (residues handed on unchanged); seqio.GenBankFields.String prints Version, the 1-based inclusive region of a slice (head+1, tail) and Definition", 4)
	r.NotDecided = append(r.NotDecided, "equality of the bytes read back (needs execution)", "behaviour of wrap.Force and of the pars combinators beyond their documented contract", "record counts and order in a stream", "format selection in AutoWriter/NewWriter")
	r.Assumptions = append(r.Assumptions, "wrap.Force(s, n) inserts \"\\n\" after every n bytes except at the end and changes nothing else", "pars.Line yields the line without its terminator (LF or CRLF); pars.Until(q) yields the bytes before the first match of q")
	info := p.Info(core.PkgSeqio)
	fastaWrite(p, r, info)
	fastaRead(p, r, info)
	fastaDesc(p, r, info)
}

func fastaWrite(p *core.Prog, r *core.Report, info *types.Info) {
	fd := p.FuncDecl(core.PkgSeqio, "Fasta.WriteTo")
	if fd == nil || fd.Body == nil {
		r.Und("FASTA-WRITE", "seqio.Fasta.WriteTo|anchor", "-", "anchor-unresolved")
		return
	}
	r.Fn("seqio.Fasta.WriteTo")
	asg := core.Assigns(info, fd.Body)
	var sp *ast.CallExpr
	for _, c := range core.Calls(fd.Body) {
		if core.IsCallTo(info, c, "fmt.Sprintf", "fmt.Fprintf") {
			sp = c
		}
	}
	key := "seqio.Fasta.WriteTo"
	var args []ast.Expr
	format := ""
	if sp != nil {
		args = sp.Args
		if core.IsCallTo(info, sp, "fmt.Fprintf") {
			args = args[1:]
		}
		format, _ = core.ConstString(info, args[0])
	} else if f, ops, at, ok := builderTemplate(info, fd.Body); ok {
		// the same record written piece by piece into one strings.Builder (top-level statements only)
		format, args, sp = f, append([]ast.Expr{nil}, ops...), at
	} else {
		r.Und("FASTA-WRITE", key+"|format", p.Pos(fd.Pos()), "no Sprintf/Fprintf builds the record")
		return
	}
	if format != ">%s\n%s\n" || len(args) != 3 {
		r.Bad("FASTA-WRITE", key+"|format", p.Pos(sp.Pos()), fmt.Sprintf("the record format is %q with %d operands, not \">%%s\\n%%s\\n\" of (description, residues): the reader's framing ('>' line, body up to the next '>') no longer matches", format, len(args)-1))
	} else {
		r.Ok("FASTA-WRITE", key+"|format", p.Pos(sp.Pos()), "\">%s\\n%s\\n\"")
	}
	if len(args) != 3 {
		return
	}
	// description: f.Desc with every byte that ends a line for the reader replaced. pars.Line, which reads
	// the header line back, stops at "\n" and at a lone "\r" alike.
	d := core.Origin(info, asg, args[1])
	replaced := map[string]bool{}
	why := ""
	var base ast.Expr
	var peel func(e ast.Expr) bool
	peel = func(e ast.Expr) bool {
		e = ast.Unparen(core.Origin(info, asg, e))
		dc, ok := e.(*ast.CallExpr)
		if !ok {
			base = e
			return true
		}
		switch {
		case core.IsCallTo(info, dc, "strings.ReplaceAll") && len(dc.Args) == 3, core.IsCallTo(info, dc, "strings.Replace") && len(dc.Args) == 4:
			from, okFrom := core.ConstString(info, dc.Args[1])
			to, okTo := core.ConstString(info, dc.Args[2])
			if len(dc.Args) == 4 {
				if n, isC := core.ConstInt(info, dc.Args[3]); !isC || n >= 0 {
					why = "only the first line break(s) of the description are replaced: a later one ends the header line early and the rest of the description is read back as residues"
					return false
				}
			}
			if !okFrom || !okTo || strings.ContainsAny(to, "\n\r>") {
				why = "the replacement text itself breaks the line"
				return false
			}
			replaced[from] = true
			return peel(dc.Args[0])
		case core.FuncID(core.Callee(info, dc)) == "strings.Replacer.Replace" && len(dc.Args) == 1:
			// strings.NewReplacer(old1, new1, ...).Replace(x)
			nr, ok := ast.Unparen(core.Origin(info, asg, methodRecvT(dc))).(*ast.CallExpr)
			if !ok || !core.IsCallTo(info, nr, "strings.NewReplacer") || len(nr.Args)%2 != 0 {
				why = "the replacer is not a strings.NewReplacer(...) with constant pairs"
				return false
			}
			for k := 0; k < len(nr.Args); k += 2 {
				from, okFrom := core.ConstString(info, nr.Args[k])
				to, okTo := core.ConstString(info, nr.Args[k+1])
				if !okFrom || !okTo || strings.ContainsAny(to, "\n\r>") {
					why = "a replacement text of the replacer itself breaks the line"
					return false
				}
				replaced[from] = true
			}
			return peel(dc.Args[0])
		}
		base = e
		return true
	}
	okDesc := peel(d)
	if okDesc {
		sel, isSel := base.(*ast.SelectorExpr)
		switch {
		case !isSel || sel.Sel.Name != "Desc" || core.ParamIndex(info, fd, core.ObjOf(info, sel.X)) != -1:
			okDesc, why = false, "the description operand is not f.Desc with its line breaks replaced"
		case !replaced["\n"]:
			okDesc, why = false, "the replacement does not target \"\\n\""
		case !replaced["\r"]:
			okDesc, why = false, "a carriage return in the description is written as it is: the reader (pars.Line) ends the header line at a lone \"\\r\" just as at \"\\n\", so the rest of the description is read back as residues (Fasta{\"a\\rb\", \"ACGT\"} reads back as description \"a\" and residues \"bACGT\")"
		}
	}
	if okDesc {
		r.Ok("FASTA-WRITE", key+"|description", p.Pos(d.Pos()), "every line break of the description (\\n and \\r) is replaced")
	} else {
		r.Bad("FASTA-WRITE", key+"|description", p.Pos(args[1].Pos()), why)
	}
	// residues
	w := core.Origin(info, asg, args[2])
	wc, _ := ast.Unparen(w).(*ast.CallExpr)
	switch {
	case wc == nil || !core.IsCallTo(info, wc, "github.com/go-wrap/wrap.Force") || len(wc.Args) != 2:
		r.Und("FASTA-WRITE", key+"|residues", p.Pos(args[2].Pos()), "the residues are not wrapped by wrap.Force, the only wrapping function whose contract (inserts line breaks, keeps every byte) is assumed: a hand-written wrapper is outside what this rule can decide")
	default:
		n, isC := core.ConstInt(info, wc.Args[1])
		src := ast.Unparen(wc.Args[0])
		if cv, ok := src.(*ast.CallExpr); ok && core.IsConversion(info, cv) && len(cv.Args) == 1 {
			src = ast.Unparen(cv.Args[0])
		}
		sel, isSel := src.(*ast.SelectorExpr)
		switch {
		case !isC || n <= 0:
			r.Bad("FASTA-WRITE", key+"|residues", p.Pos(wc.Pos()), "the line width is not a positive constant")
		case !isSel || sel.Sel.Name != "Data" || core.ParamIndex(info, fd, core.ObjOf(info, sel.X)) != -1:
			r.Bad("FASTA-WRITE", key+"|residues", p.Pos(wc.Pos()), "what is wrapped is not f.Data itself")
		default:
			r.Ok("FASTA-WRITE", key+"|residues", p.Pos(wc.Pos()), fmt.Sprintf("wrap.Force(f.Data, %d)", n))
		}
	}
}

func fastaRead(p *core.Prog, r *core.Report, info *types.Info) {
	pk := p.Pkg(core.PkgSeqio)
	var init ast.Expr
	for _, f := range pk.Syntax {
		for _, d := range f.Decls {
			gd, ok := d.(*ast.GenDecl)
			if !ok || gd.Tok != token.VAR {
				continue
			}
			for _, s := range gd.Specs {
				vs := s.(*ast.ValueSpec)
				for i, n := range vs.Names {
					if n.Name == "FastaParser" && i < len(vs.Values) {
						init = vs.Values[i]
					}
				}
			}
		}
	}
	key := "seqio.FastaParser"
	if init == nil {
		r.Und("FASTA-READ", key+"|anchor", "-", "anchor-unresolved")
		return
	}
	r.Fn("seqio.FastaParser")
	// pars.Seq(...).Map(func)
	mc, ok := ast.Unparen(init).(*ast.CallExpr)
	var seq *ast.CallExpr
	var cb *ast.FuncLit
	if ok {
		if sel, isSel := mc.Fun.(*ast.SelectorExpr); isSel && sel.Sel.Name == "Map" && len(mc.Args) == 1 {
			seq, _ = ast.Unparen(sel.X).(*ast.CallExpr)
			cb, _ = ast.Unparen(mc.Args[0]).(*ast.FuncLit)
		}
	}
	if seq == nil || cb == nil || !core.IsCallTo(info, seq, parsID+".Seq") {
		r.Und("FASTA-READ", key+"|shape", p.Pos(init.Pos()), "FastaParser is not pars.Seq(...).Map(func)")
		return
	}
	shape := len(seq.Args) == 3
	if shape {
		c0, ok0 := core.ConstInt(info, seq.Args[0])
		shape = ok0 && c0 == '>' && isParsFn(info, seq.Args[1], "Line")
		if u, ok := ast.Unparen(seq.Args[2]).(*ast.CallExpr); shape && ok && core.IsCallTo(info, u, parsID+".Until") && len(u.Args) == 1 {
			a, ok := ast.Unparen(u.Args[0]).(*ast.CallExpr)
			shape = ok && core.IsCallTo(info, a, parsID+".Any") && len(a.Args) == 2
			if shape {
				c, okc := core.ConstInt(info, a.Args[0])
				shape = okc && c == '>' && isParsFn(info, a.Args[1], "End")
			}
		} else {
			shape = false
		}
	}
	if shape {
		r.Ok("FASTA-READ", key+"|shape", p.Pos(seq.Pos()), "Seq('>', Line, Until(Any('>', End)))")
	} else {
		r.Bad("FASTA-READ", key+"|shape", p.Pos(seq.Pos()), "the record grammar is not '>' header-line body-up-to-the-next-'>'-or-end: records are framed differently from what the writer emits")
	}
	asg := core.Assigns(info, cb.Body)
	var set *ast.CallExpr
	for _, c := range core.Calls(cb.Body) {
		if sel, ok := c.Fun.(*ast.SelectorExpr); ok && sel.Sel.Name == "SetValue" && len(c.Args) == 1 {
			set = c
		}
	}
	lit, _ := ast.Unparen(func() ast.Expr {
		if set == nil {
			return nil
		}
		return set.Args[0]
	}()).(*ast.CompositeLit)
	if lit == nil || len(lit.Elts) != 2 {
		r.Und("FASTA-READ", key+"|value", p.Pos(cb.Pos()), "the callback does not store a Fasta{desc, data} literal")
		return
	}
	el := func(i int) ast.Expr {
		if kv, ok := lit.Elts[i].(*ast.KeyValueExpr); ok {
			return kv.Value
		}
		return lit.Elts[i]
	}
	child := func(e ast.Expr) int64 {
		// string(result.Children[k].Token) / result.Children[k].Token
		e = ast.Unparen(core.Origin(info, asg, e))
		if c, ok := e.(*ast.CallExpr); ok && core.IsConversion(info, c) && len(c.Args) == 1 {
			e = ast.Unparen(core.Origin(info, asg, c.Args[0]))
		}
		sel, ok := e.(*ast.SelectorExpr)
		if !ok || sel.Sel.Name != "Token" {
			return -1
		}
		ix, ok := ast.Unparen(sel.X).(*ast.IndexExpr)
		if !ok {
			return -1
		}
		k, ok := core.ConstInt(info, ix.Index)
		if !ok {
			return -1
		}
		return k
	}
	if child(el(0)) == 1 {
		r.Ok("FASTA-READ", key+"|description", p.Pos(el(0).Pos()), "child 1 (the header line)")
	} else {
		r.Bad("FASTA-READ", key+"|description", p.Pos(el(0).Pos()), "the description is not the header line (child 1 of the sequence)")
	}
	// residues: Join(lines, nil) <- lines := Split(body, "\n") with body = child 2
	j, _ := ast.Unparen(core.Origin(info, asg, el(1))).(*ast.CallExpr)
	if j == nil || !core.IsCallTo(info, j, "bytes.Join") || len(j.Args) != 2 {
		r.Bad("FASTA-READ", key+"|residues", p.Pos(el(1).Pos()), "the residues are not bytes.Join of the body's lines")
		return
	}
	if !core.IsNil(info, j.Args[1]) {
		if s, ok := p.BytesOfConst(info, j.Args[1]); !ok || s != "" {
			r.Bad("FASTA-READ", key+"|residues", p.Pos(j.Pos()), "the lines are joined with a separator: bytes are inserted into the residues")
			return
		}
	}
	linesObj := core.ObjOf(info, j.Args[0])
	var split *ast.CallExpr
	for _, a := range asg[linesObj] {
		if c, ok := ast.Unparen(a.RHS).(*ast.CallExpr); a.RHS != nil && ok && core.IsCallTo(info, c, "bytes.Split") {
			split = c
		}
	}
	if split == nil || len(split.Args) != 2 {
		r.Bad("FASTA-READ", key+"|residues", p.Pos(j.Pos()), "the joined lines do not come from bytes.Split of the body")
		return
	}
	sep, okSep := bytesLit(p, info, split.Args[1])
	if child(split.Args[0]) != 2 || !okSep || sep != "\n" {
		r.Bad("FASTA-READ", key+"|residues", p.Pos(split.Pos()), "the residues are not child 2 split at \"\\n\"")
		return
	}
	r.Ok("FASTA-READ", key+"|residues", p.Pos(split.Pos()), "Join(Split(child 2, \"\\n\"), nil)")
	// CR: a loop over the lines stripping "\r", or ReplaceAll "\r\n" before the split
	cr := false
	ast.Inspect(cb.Body, func(n ast.Node) bool {
		c, ok := n.(*ast.CallExpr)
		if !ok {
			return true
		}
		if core.IsCallTo(info, c, "bytes.TrimSuffix", "bytes.TrimRight") && len(c.Args) == 2 {
			var s string
			var ok bool
			if core.IsCallTo(info, c, "bytes.TrimRight") {
				s, ok = core.ConstString(info, c.Args[1])
			} else {
				s, ok = bytesLit(p, info, c.Args[1])
			}
			if ok && s == "\r" {
				// applied to an element of lines inside a loop over lines, stored back
				par := core.Parents(cb.Body)
				for m := par[ast.Node(c)]; m != nil; m = par[m] {
					if rs, ok := m.(*ast.RangeStmt); ok && core.ObjOf(info, rs.X) == linesObj && rs.Pos() < j.Pos() {
						if as, ok := par[ast.Node(c)].(*ast.AssignStmt); ok && len(as.Lhs) == 1 {
							if ix, ok := ast.Unparen(as.Lhs[0]).(*ast.IndexExpr); ok && core.ObjOf(info, ix.X) == linesObj && core.ObjOf(info, ix.Index) == core.ObjOf(info, rs.Key) {
								cr = true
							}
						}
					}
				}
			}
		}
		return true
	})
	if cr {
		r.Ok("FASTA-READ", key+"|carriage-return", p.Pos(split.Pos()), "a trailing \"\\r\" is stripped from every line")
	} else {
		r.Bad("FASTA-READ", key+"|carriage-return", p.Pos(split.Pos()), "the lines of the body are split at \"\\n\" only: on CRLF input every line keeps its \"\\r\", which is read back as a residue")
	}
}

const parsID = "github.com/go-pars/pars"

func isParsFn(info *types.Info, e ast.Expr, name string) bool {
	sel, ok := ast.Unparen(e).(*ast.SelectorExpr)
	if !ok {
		return false
	}
	o := info.Uses[sel.Sel]
	return o != nil && o.Pkg() != nil && o.Pkg().Path() == parsID && o.Name() == name
}

// bytesLit folds []byte{'\n'} / []byte("\n") / "\n".
func bytesLit(p *core.Prog, info *types.Info, e ast.Expr) (string, bool) {
	if s, ok := p.BytesOfConst(info, e); ok {
		return s, true
	}
	if cl, ok := ast.Unparen(e).(*ast.CompositeLit); ok {
		var b []byte
		for _, el := range cl.Elts {
			v, ok := core.ConstInt(info, el)
			if !ok || v < 0 || v > 255 {
				return "", false
			}
			b = append(b, byte(v))
		}
		return string(b), true
	}
	return "", false
}

func fastaDesc(p *core.Prog, r *core.Report, info *types.Info) {
	fd := p.FuncDecl(core.PkgSeqio, "FastaWriter.WriteSeq")
	if fd == nil || fd.Body == nil {
		r.Und("FASTA-DESC", "seqio.FastaWriter.WriteSeq|anchor", "-", "anchor-unresolved")
	} else {
		r.Fn("seqio.FastaWriter.WriteSeq")
		n := 0
		ast.Inspect(fd.Body, func(m ast.Node) bool {
			cl, ok := m.(*ast.CompositeLit)
			if !ok || core.NamedOf(info.TypeOf(cl)) != core.PkgSeqio+".Fasta" || len(cl.Elts) != 2 {
				return true
			}
			n++
			key := fmt.Sprintf("seqio.FastaWriter.WriteSeq|Fasta#%d", n)
			val := func(i int) ast.Expr {
				if kv, ok := cl.Elts[i].(*ast.KeyValueExpr); ok {
					return kv.Value
				}
				return cl.Elts[i]
			}
			// data: X.Bytes() directly
			dc, ok := ast.Unparen(val(1)).(*ast.CallExpr)
			okData := false
			if ok && len(dc.Args) == 0 {
				if sel, ok := dc.Fun.(*ast.SelectorExpr); ok && sel.Sel.Name == "Bytes" {
					if _, isID := ast.Unparen(sel.X).(*ast.Ident); isID {
						okData = true
					}
				}
			}
			// desc: the switch variable (string case) or its String()
			okDescr := false
			switch d := ast.Unparen(val(0)).(type) {
			case *ast.Ident:
				if b, ok := info.TypeOf(d).Underlying().(*types.Basic); ok && b.Kind() == types.String {
					okDescr = true
				}
			case *ast.CallExpr:
				if sel, ok := d.Fun.(*ast.SelectorExpr); ok && sel.Sel.Name == "String" && len(d.Args) == 0 {
					if _, isID := ast.Unparen(sel.X).(*ast.Ident); isID {
						okDescr = true
					}
				}
			}
			switch {
			case !okData:
				r.Bad("FASTA-DESC", key, p.Pos(cl.Pos()), "the residues handed to the FASTA record are not the sequence's Bytes() unchanged")
			case !okDescr:
				r.Bad("FASTA-DESC", key, p.Pos(cl.Pos()), "the description is not the metadata string / its String()")
			default:
				r.Ok("FASTA-DESC", key, p.Pos(cl.Pos()), "Fasta{metadata text, v.Bytes()}")
			}
			return true
		})
		if n == 0 {
			r.Und("FASTA-DESC", "seqio.FastaWriter.WriteSeq", p.Pos(fd.Pos()), "no Fasta literal built from a foreign sequence")
		}
	}
	// GenBankFields.String
	sd := p.FuncDecl(core.PkgSeqio, "GenBankFields.String")
	if sd == nil || sd.Body == nil {
		r.Und("FASTA-DESC", "seqio.GenBankFields.String|anchor", "-", "anchor-unresolved")
		return
	}
	r.Fn("seqio.GenBankFields.String")
	n := 0
	for _, ret := range core.Returns(sd.Body) {
		n++
		key := fmt.Sprintf("seqio.GenBankFields.String|return#%d", n)
		c, ok := ast.Unparen(ret.Results[0]).(*ast.CallExpr)
		if !ok || !core.IsCallTo(info, c, "fmt.Sprintf") {
			r.Und("FASTA-DESC", key, p.Pos(ret.Pos()), "not a Sprintf")
			continue
		}
		format, _ := core.ConstString(info, c.Args[0])
		field := func(e ast.Expr) string {
			if sel, ok := ast.Unparen(e).(*ast.SelectorExpr); ok && core.ParamIndex(info, sd, core.ObjOf(info, sel.X)) == -1 {
				return sel.Sel.Name
			}
			return ""
		}
		switch {
		case format == "%s %s" && len(c.Args) == 3 && field(c.Args[1]) == "Version" && field(c.Args[2]) == "Definition":
			r.Ok("FASTA-DESC", key, p.Pos(ret.Pos()), "Version Definition")
		case format == "%s:%d-%d %s" && len(c.Args) == 5 && field(c.Args[1]) == "Version" && field(c.Args[4]) == "Definition":
			// head+1, tail of Unpack(segment)
			asg := core.Assigns(info, sd.Body)
			var head, tail types.Object
			for o, as := range asg {
				for _, a := range as {
					if a.Call != nil && core.IsCallTo(info, a.Call, core.PkgGts+".Unpack") {
						if a.Idx == 0 {
							head = o
						} else {
							tail = o
						}
					}
				}
			}
			be, isB := ast.Unparen(c.Args[2]).(*ast.BinaryExpr)
			one := int64(0)
			if isB {
				one, _ = core.ConstInt(info, be.Y)
			}
			if isB && be.Op == token.ADD && one == 1 && core.ObjOf(info, be.X) == head && head != nil && core.ObjOf(info, c.Args[3]) == tail {
				r.Ok("FASTA-DESC", key, p.Pos(ret.Pos()), "Version:head+1-tail Definition")
			} else {
				r.Bad("FASTA-DESC", key, p.Pos(ret.Pos()), "the region suffix is not the 1-based inclusive (head+1, tail) of the slice")
			}
		default:
			r.Bad("FASTA-DESC", key, p.Pos(ret.Pos()), fmt.Sprintf("the description format %q is not `Version[:region] Definition`", format))
		}
	}
}

// builderTemplate reads a run of top-level WriteByte/WriteRune/WriteString calls
// on one local strings.Builder (or bytes.Buffer) as the format they spell out:
// constants verbatim, every other operand as %s. ok is false when the builder
// is written anywhere but in top-level statements of the body (a loop or a
// branch makes the output depend on more than the operands).
func builderTemplate(info *types.Info, body *ast.BlockStmt) (format string, ops []ast.Expr, at *ast.CallExpr, ok bool) {
	var b types.Object
	top := map[*ast.CallExpr]bool{}
	for _, st := range body.List {
		es, isExpr := st.(*ast.ExprStmt)
		if !isExpr {
			continue
		}
		c, isCall := es.X.(*ast.CallExpr)
		if !isCall {
			continue
		}
		sel, isSel := ast.Unparen(c.Fun).(*ast.SelectorExpr)
		if !isSel || len(c.Args) != 1 {
			continue
		}
		switch sel.Sel.Name {
		case "WriteByte", "WriteRune", "WriteString":
		default:
			continue
		}
		o := core.ObjOf(info, sel.X)
		if o == nil {
			continue
		}
		if nt := core.NamedOf(o.Type()); nt != "strings.Builder" && nt != "bytes.Buffer" {
			continue
		}
		if b == nil {
			b = o
		}
		if o != b {
			return "", nil, nil, false
		}
		top[c] = true
		if at == nil {
			at = c
		}
		switch sel.Sel.Name {
		case "WriteString":
			if s, isConst := core.ConstString(info, c.Args[0]); isConst {
				format += strings.ReplaceAll(s, "%", "%%")
			} else {
				format += "%s"
				ops = append(ops, c.Args[0])
			}
		default:
			v, isConst := core.ConstInt(info, c.Args[0])
			if !isConst {
				return "", nil, nil, false
			}
			format += strings.ReplaceAll(string(rune(v)), "%", "%%")
		}
	}
	if b == nil {
		return "", nil, nil, false
	}
	// no other write to the builder anywhere
	clean := true
	for _, c := range core.Calls(body) {
		if sel, isSel := ast.Unparen(c.Fun).(*ast.SelectorExpr); isSel && core.ObjOf(info, sel.X) == b && strings.HasPrefix(sel.Sel.Name, "Write") && !top[c] {
			clean = false
		}
		if core.IsCallTo(info, c, "fmt.Fprint", "fmt.Fprintln") && len(c.Args) > 0 {
			if u, ok := ast.Unparen(c.Args[0]).(*ast.UnaryExpr); ok && core.ObjOf(info, u.X) == b {
				clean = false
			}
		}
	}
	return format, ops, at, clean
}

func methodRecvT(c *ast.CallExpr) ast.Expr {
	if sel, ok := ast.Unparen(c.Fun).(*ast.SelectorExpr); ok {
		return sel.X
	}
	return nil
}

package effects

import (
	"fmt"
	"go/types"
	"sort"
	"strings"

	"golang.org/x/tools/go/ssa"

	"gtsverif/core"
)

// isMutableCarrier: a parameter type that carries mutable memory by value
// semantics: a slice, a map, one of the repo's interfaces, or a struct/array of those.
func isMutableCarrier(t types.Type) bool {
	switch u := t.Underlying().(type) {
	case *types.Slice, *types.Map:
		return true
	case *types.Interface:
		if n, ok := t.(*types.Named); ok && repoPkg(n.Obj().Pkg()) {
			return true
		}
		return false
	case *types.Struct:
		for i := 0; i < u.NumFields(); i++ {
			if isMutableCarrier(u.Field(i).Type()) {
				return true
			}
		}
	case *types.Array:
		return isMutableCarrier(u.Elem())
	}
	return false
}

func isIOType(t types.Type) bool {
	s := t.String()
	return s == "io.Writer" || s == "io.Reader" || s == "io.ReadCloser" || s == "io.WriteCloser"
}

func hasIOField(t types.Type) bool {
	st, ok := t.Underlying().(*types.Struct)
	if !ok {
		return false
	}
	for i := 0; i < st.NumFields(); i++ {
		if isIOType(st.Field(i).Type()) {
			return true
		}
	}
	return false
}

// operations derives the table of functions that rule PURE applies to.
func operations(a *Analysis) (ops []*ssa.Function, skipped map[string]string) {
	skipped = map[string]string{}
	for _, f := range a.funcs {
		if f.Parent() != nil || f.Synthetic != "" || f.Pkg == nil || (f.Pkg.Pkg.Path() != core.PkgGts && f.Pkg.Pkg.Path() != core.PkgSeqio) {
			continue
		}
		obj, _ := f.Object().(*types.Func)
		if obj == nil || !obj.Exported() {
			continue
		}
		sig := f.Signature
		name := f.String()
		if recv := sig.Recv(); recv != nil {
			if _, isPtr := recv.Type().(*types.Pointer); isPtr {
				skipped[name] = "pointer receiver: a mutator by contract"
				continue
			}
			if n, ok := recv.Type().(*types.Named); ok && !n.Obj().Exported() {
				continue
			}
			if hasIOField(recv.Type()) {
				skipped[name] = "receiver holds an io.Writer/io.Reader"
				continue
			}
			if obj.Name() == "Swap" && sig.Params().Len() == 2 && sig.Results().Len() == 0 {
				skipped[name] = "sort.Interface.Swap: a mutator by contract"
				continue
			}
		}
		carrier := sig.Recv() != nil && isMutableCarrier(sig.Recv().Type())
		mut := ""
		for i := 0; i < sig.Params().Len(); i++ {
			t := sig.Params().At(i).Type()
			if _, isPtr := t.Underlying().(*types.Pointer); isPtr {
				mut = "pointer parameter: a mutator by contract"
			}
			if isIOType(t) {
				mut = "io.Writer/io.Reader parameter"
			}
			if isMutableCarrier(t) {
				carrier = true
			}
		}
		if mut != "" {
			skipped[name] = mut
			continue
		}
		if !carrier {
			continue
		}
		ops = append(ops, f)
	}
	return ops, skipped
}

var required = []string{"Insert", "Embed", "Delete", "Erase", "Slice", "Concat", "Reverse", "Rotate", "Complement", "Transcribe",
	"WithInfo", "WithFeatures", "WithBytes", "Repair", "(FeatureSlice).Filter", "(FeatureSlice).Insert"}

func paramName(f *ssa.Function, i int) string {
	if i < len(f.Params) {
		return f.Params[i].Name()
	}
	if j := i - len(f.Params); j < len(f.FreeVars) {
		return "captured " + f.FreeVars[j].Name()
	}
	return fmt.Sprintf("#%d", i)
}

// C11 decides rule PURE.
func C11(p *core.Prog, r *core.Report) { pure(p, r, nil, required, 60) }

// PureOps decides rule PURE for the named operations only ("Name" a gts or
// seqio function, "(T).Name" a method, "*.Name" that method on every receiver
// type): the properties about one edit operation include "and it leaves its
// inputs alone", because a later result computed from a damaged input is wrong.
func PureOps(floor int, names ...string) func(p *core.Prog, r *core.Report) {
	return func(p *core.Prog, r *core.Report) {
		var req []string
		for _, n := range names {
			if !strings.HasPrefix(n, "*.") {
				req = append(req, n)
			}
		}
		pure(p, r, func(nm string) bool {
			for _, n := range names {
				if n == nm {
					return true
				}
				if strings.HasPrefix(n, "*.") && strings.HasSuffix(nm, ")"+n[1:]) {
					return true
				}
			}
			return false
		}, req, floor)
	}
}

func opName(f *ssa.Function) string {
	if f.Signature.Recv() != nil {
		return "(" + types.TypeString(f.Signature.Recv().Type(), func(*types.Package) string { return "" }) + ")." + f.Name()
	}
	return f.Name()
}

func pure(p *core.Prog, r *core.Report, only func(string) bool, required []string, floor int) {
	r.Rule("PURE", "for every operation in the derived table (exported functions and value-receiver methods of gts and gts/seqio that take a slice, map, repo interface or struct of those, and have no pointer / io.Reader / io.Writer in their signature) the set of (parameter, cell type) that the operation or anything it calls may write is empty; writes by append into spare capacity, copy, library mutators and through sub-slices included", floor)
	r.Rule("OPS", "the operations named by the property are in the derived table", len(required))
	r.Rule("AXIOMS", "every external callee that receives argument-derived mutable memory is in the library axiom table", 0)
	r.NotDecided = append(r.NotDecided, "writes performed by code outside the repository other than through the axiom table", "observability through unexported state that no accessor exposes")
	r.Assumptions = append(r.Assumptions,
		"library axioms: functions of bytes, strings, fmt, reflect, regexp, strconv, errors, unicode, index/suffixarray, time, path/filepath, go-pars/pars, go-ascii/ascii, go-wrap/wrap never write through a slice/map argument (their results may alias it); sort.Sort/Stable/Slice/Strings/Ints, flip.Bytes/Flip, io.ReadFull, Reader.Read write their slice argument; Buffer/Builder/Writer methods write only their receiver",
		"type-based alias filtering is sound because the repository uses no unsafe",
		"interface calls resolve to the repo's implementers (class-hierarchy analysis); calls through function values resolve to every repo function or closure of identical signature",
		"reviewed exception: seqio.(*Origin).Bytes replaces Buffer/Parsed of the shared *Origin with an equivalent decoded representation (idempotent cache); Bytes/Len/String are defined on both representations, so nothing observable through the accessors changes")
	a := New(p)
	a.Exempt("(*"+core.PkgSeqio+".Origin).Bytes", "idempotent representation cache")
	ops0, _ := operations(a)
	if only != nil {
		var keep []*ssa.Function
		for _, f := range ops0 {
			if only(opName(f)) {
				keep = append(keep, f)
			}
		}
		ops0 = keep
	}
	a.Restrict(ops0)
	rounds := a.Solve()
	r.Extra["fixpoint_rounds"] = rounds
	r.Extra["functions_summarised"] = len(a.funcs)
	ops, skipped := operations(a)
	if only != nil {
		var keep []*ssa.Function
		for _, f := range ops {
			if only(opName(f)) {
				keep = append(keep, f)
			}
		}
		ops = keep
	}
	r.Extra["operations"] = len(ops)
	r.Extra["mutators_by_contract"] = len(skipped)

	have := map[string]bool{}
	short := func(f *ssa.Function) string {
		s := f.String()
		s = strings.ReplaceAll(s, core.Mod+"/", "")
		s = strings.ReplaceAll(s, core.Mod+".", "gts.")
		s = strings.ReplaceAll(s, "("+core.Mod, "(gts")
		return s
	}
	// group findings by the innermost writer so one repair clears its callers together
	type finding struct {
		root    *ssa.Function
		callers []string
		detail  string
		pos     string
		chain   []string
	}
	findings := map[string]*finding{}
	cells := map[string]map[string]bool{}
	for _, f := range ops {
		r.Fn(short(f))
		have[opName(f)] = true
		ws := a.Writes(f)
		if len(ws) == 0 {
			r.Ok("PURE", short(f), p.Pos(f.Pos()), "no write can land in memory reachable from its arguments")
			continue
		}
		for _, w := range ws {
			rootName := short(w.Root)
			k := rootName
			fd := findings[k]
			if fd == nil {
				fd = &finding{root: w.Root, pos: p.Pos(w.RootPos), chain: w.Chain,
					detail: fmt.Sprintf("%s may write memory reachable from its argument: %s", rootName, w.Chain[len(w.Chain)-1])}
				findings[k] = fd
			}
			if !cells[k][w.CellType] {
				if cells[k] == nil {
					cells[k] = map[string]bool{}
				}
				cells[k][w.CellType] = true
			}
			cl := fmt.Sprintf("%s (through parameter %s)", short(f), paramName(f, w.Param))
			dup := false
			for _, x := range fd.callers {
				if x == cl {
					dup = true
				}
			}
			if !dup {
				fd.callers = append(fd.callers, cl)
			}
		}
	}
	var ks []string
	for k := range findings {
		ks = append(ks, k)
	}
	sort.Strings(ks)
	for _, k := range ks {
		fd := findings[k]
		sort.Strings(fd.callers)
		path := append([]string{}, fd.chain...)
		var cts []string
		for ct := range cells[k] {
			cts = append(cts, ct)
		}
		sort.Strings(cts)
		if len(cts) > 6 {
			cts = append(cts[:6], "...")
		}
		r.Bad("PURE", k, fd.pos, fd.detail+"; cell types: "+strings.Join(cts, ", ")+"; operations affected: "+strings.Join(fd.callers, ", "), path...)
	}
	for _, name := range required {
		if have[name] {
			r.Ok("OPS", "gts."+name, "-", "in the operation table")
		} else {
			r.Bad("OPS", "gts."+name, "-", "an operation named by the property is missing from the derived table (renamed, or its signature now contains a pointer/io type)")
		}
	}
	var unk []string
	for n := range a.Unknown {
		unk = append(unk, n)
	}
	sort.Strings(unk)
	for _, n := range unk {
		r.Und("AXIOMS", n, p.Pos(a.Unknown[n]), "external callee receives argument-derived mutable memory and is not in the axiom table: its effect is unknown")
	}
	var ext []string
	for n, c := range a.External {
		ext = append(ext, fmt.Sprintf("%s x%d", n, c))
	}
	sort.Strings(ext)
	r.Extra["external_callees_given_argument_memory"] = ext
	var sk []string
	for n, why := range skipped {
		sk = append(sk, strings.ReplaceAll(n, core.Mod, "gts")+": "+why)
	}
	sort.Strings(sk)
	r.Extra["mutators_by_contract_list"] = sk
}

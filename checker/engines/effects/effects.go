// Package effects implements E1: a type-partitioned ownership / effect analysis
// over go/ssa with interprocedural summaries iterated to a least fixpoint.
//
// Abstract object = (root, cell type): "all memory cells of Go type T that
// belong to root r". Roots are, per function, its parameters (receiver and free
// variables included), its allocation sites, and the globals. See DESIGN.md E1.
package effects

import (
	"fmt"
	"go/token"
	"go/types"
	"os"
	"sort"
	"strings"
	"time"

	"golang.org/x/tools/go/ssa"
	"golang.org/x/tools/go/types/typeutil"

	"gtsverif/core"
)

const (
	rootGlobal = -1
	allocBase  = 1 << 20
)

type obj struct {
	root int // 0..n-1 parameters (receiver first), n.. free variables, >= allocBase allocation sites, -1 globals
	typ  int // index into the analysis' type table
}

type objset map[obj]struct{}

func (s objset) add(o obj) bool {
	if _, ok := s[o]; ok {
		return false
	}
	s[o] = struct{}{}
	return true
}

func (s objset) addAll(t objset) bool {
	ch := false
	for o := range t {
		if s.add(o) {
			ch = true
		}
	}
	return ch
}

// Witness explains one possible write.
type Witness struct {
	Pos  token.Pos
	What string
	Via  *ssa.Function // callee whose summary carried the write (nil for a direct write)
	ViaK key           // the callee's MUT entry
}

type key struct {
	param int
	typ   int
}

type summary struct {
	mut         map[key]Witness      // (param, cell type) that may be written
	gmut        map[int]Witness      // cell types of package-level (global) memory that may be written
	ret         map[key]bool         // parameter objects the results may reference (directly or inside fresh memory)
	fresh       map[int]bool         // cell types of fresh memory reachable from the results
	stores      map[key]map[key]bool // param object <- param object stored into it
	storesFresh map[key]map[int]bool
}

func newSummary() *summary {
	return &summary{gmut: map[int]Witness{}, mut: map[key]Witness{}, ret: map[key]bool{}, fresh: map[int]bool{}, stores: map[key]map[key]bool{}, storesFresh: map[key]map[int]bool{}}
}

func (s *summary) size() int {
	n := len(s.mut) + len(s.gmut) + len(s.ret) + len(s.fresh)
	for _, m := range s.stores {
		n += len(m)
	}
	for _, m := range s.storesFresh {
		n += len(m)
	}
	return n
}

// Analysis is the whole-program state.
type Analysis struct {
	prog     *core.Prog
	types    typeutil.Map // types.Type -> int
	tlist    []types.Type
	ref      map[int]map[int]bool // refTargets per type id
	wild     map[int]bool         // type may reference anything (interface{}, func)
	embeds   map[[2]int]bool
	named    []*types.Named // repo named types (for CHA)
	impls    map[*types.Interface][]types.Type
	sums     map[*ssa.Function]*summary
	funcs    []*ssa.Function
	bySig    map[string][]*ssa.Function
	Unknown  map[string]token.Pos // external callees that received argument-derived mutable memory and are not in the axiom table
	External map[string]int       // axiom-table callees that actually received such memory
	exempt   map[string]string
}

func (a *Analysis) tid(t types.Type) int {
	if v := a.types.At(t); v != nil {
		return v.(int)
	}
	id := len(a.tlist)
	a.types.Set(t, id)
	a.tlist = append(a.tlist, t)
	return id
}

func repoPkg(p *types.Package) bool {
	return p != nil && (p.Path() == core.Mod || strings.HasPrefix(p.Path(), core.Mod+"/"))
}

// implementers lists the repo's concrete types (and their pointers) that implement iface.
func (a *Analysis) implementers(iface *types.Interface) []types.Type {
	if v, ok := a.impls[iface]; ok {
		return v
	}
	var out []types.Type
	for _, n := range a.named {
		if _, isI := n.Underlying().(*types.Interface); isI {
			continue
		}
		if types.Implements(n, iface) {
			out = append(out, n)
		} else if p := types.NewPointer(n); types.Implements(p, iface) {
			out = append(out, p)
		}
	}
	a.impls[iface] = out
	return out
}

// refTargets: the cell types a value of type t can reference directly.
func (a *Analysis) refTargets(t types.Type) (map[int]bool, bool) {
	id := a.tid(t)
	if r, ok := a.ref[id]; ok {
		return r, a.wild[id]
	}
	res := map[int]bool{}
	a.ref[id] = res // recursion guard: partial result
	wild := false
	addAll := func(m map[int]bool, w bool) {
		for k := range m {
			res[k] = true
		}
		wild = wild || w
	}
	switch u := t.Underlying().(type) {
	case *types.Slice:
		res[a.tid(u.Elem())] = true
	case *types.Pointer:
		res[a.tid(u.Elem())] = true
	case *types.Map:
		res[a.tid(u.Elem())] = true
		res[a.tid(u.Key())] = true
	case *types.Chan:
		res[a.tid(u.Elem())] = true
	case *types.Array:
		addAll(a.refTargets(u.Elem()))
	case *types.Struct:
		for i := 0; i < u.NumFields(); i++ {
			addAll(a.refTargets(u.Field(i).Type()))
		}
	case *types.Tuple:
		for i := 0; i < u.Len(); i++ {
			addAll(a.refTargets(u.At(i).Type()))
		}
	case *types.Interface:
		if u.NumMethods() == 0 {
			wild = true
		} else {
			impl := a.implementers(u)
			for _, c := range impl {
				addAll(a.refTargets(c))
			}
			if len(impl) == 0 {
				wild = true // an interface implemented outside the repo (io.Writer, hash.Hash ...)
			}
		}
	case *types.Signature:
		wild = true
	}
	a.wild[id] = wild
	return res, wild
}

// embedsType: is t (by value) part of the memory cell of type u?
func (a *Analysis) embedsType(u, t int) bool {
	if u == t {
		return true
	}
	k := [2]int{u, t}
	if v, ok := a.embeds[k]; ok {
		return v
	}
	a.embeds[k] = false
	res := false
	switch x := a.tlist[u].Underlying().(type) {
	case *types.Struct:
		for i := 0; i < x.NumFields() && !res; i++ {
			res = a.embedsType(a.tid(x.Field(i).Type()), t)
		}
	case *types.Array:
		res = a.embedsType(a.tid(x.Elem()), t)
	}
	a.embeds[k] = res
	return res
}

// New builds the analysis over the repo's library packages.
func New(p *core.Prog) *Analysis {
	a := &Analysis{prog: p, ref: map[int]map[int]bool{}, wild: map[int]bool{}, embeds: map[[2]int]bool{}, impls: map[*types.Interface][]types.Type{},
		sums: map[*ssa.Function]*summary{}, bySig: map[string][]*ssa.Function{}, Unknown: map[string]token.Pos{}, External: map[string]int{},
		exempt: map[string]string{}}
	for path, pk := range p.Pkgs {
		if !repoPkg(pk.Types) {
			continue
		}
		_ = path
		sc := pk.Types.Scope()
		for _, n := range sc.Names() {
			if tn, ok := sc.Lookup(n).(*types.TypeName); ok {
				if nt, ok := tn.Type().(*types.Named); ok {
					a.named = append(a.named, nt)
				}
			}
		}
	}
	sort.Slice(a.named, func(i, j int) bool { return a.named[i].String() < a.named[j].String() })
	var repoPaths []string
	for path, pk := range p.Pkgs {
		if repoPkg(pk.Types) {
			repoPaths = append(repoPaths, path)
		}
	}
	sort.Strings(repoPaths)
	for _, pkgPath := range repoPaths {
		sp := p.SSAPkgs[pkgPath]
		if sp == nil {
			continue
		}
		var add func(f *ssa.Function)
		add = func(f *ssa.Function) {
			if f == nil || f.Blocks == nil || a.sums[f] != nil {
				return
			}
			a.sums[f] = newSummary()
			a.funcs = append(a.funcs, f)
			a.bySig[f.Signature.String()] = append(a.bySig[types.TypeString(stripRecv(f.Signature), nil)], f)
			for _, an := range f.AnonFuncs {
				add(an)
			}
		}
		for _, m := range sp.Members {
			switch x := m.(type) {
			case *ssa.Function:
				add(x)
			case *ssa.Type:
				for _, t := range []types.Type{x.Type(), types.NewPointer(x.Type())} {
					ms := p.SSA.MethodSets.MethodSet(t)
					for i := 0; i < ms.Len(); i++ {
						add(p.SSA.MethodValue(ms.At(i)))
					}
				}
			}
		}
	}
	sort.Slice(a.funcs, func(i, j int) bool { return a.funcs[i].String() < a.funcs[j].String() })
	// rebuild bySig keyed without receivers
	a.bySig = map[string][]*ssa.Function{}
	for _, f := range a.funcs {
		if f.Signature.Recv() == nil {
			k := types.TypeString(f.Signature, nil)
			a.bySig[k] = append(a.bySig[k], f)
		}
	}
	return a
}

func stripRecv(s *types.Signature) *types.Signature {
	return types.NewSignatureType(nil, nil, nil, s.Params(), s.Results(), s.Variadic())
}

// Restrict keeps only the functions reachable from roots (static calls, class
// hierarchy for interface calls, signature match for calls through function
// values, and every closure a reachable function creates).
func (a *Analysis) Restrict(roots []*ssa.Function) {
	reach := map[*ssa.Function]bool{}
	var work []*ssa.Function
	push := func(f *ssa.Function) {
		if f != nil && a.sums[f] != nil && !reach[f] {
			reach[f] = true
			work = append(work, f)
		}
	}
	for _, r := range roots {
		push(r)
	}
	for len(work) > 0 {
		f := work[len(work)-1]
		work = work[:len(work)-1]
		for _, b := range f.Blocks {
			for _, ins := range b.Instrs {
				if mc, ok := ins.(*ssa.MakeClosure); ok {
					push(mc.Fn.(*ssa.Function))
				}
				var c *ssa.CallCommon
				switch x := ins.(type) {
				case *ssa.Call:
					c = &x.Call
				case *ssa.Defer:
					c = &x.Call
				case *ssa.Go:
					c = &x.Call
				}
				if c == nil {
					continue
				}
				if c.IsInvoke() {
					if iface, _ := c.Value.Type().Underlying().(*types.Interface); iface != nil {
						for _, t := range a.implementers(iface) {
							if sel := a.prog.SSA.MethodSets.MethodSet(t).Lookup(c.Method.Pkg(), c.Method.Name()); sel != nil {
								push(a.prog.SSA.MethodValue(sel))
							}
						}
					}
					continue
				}
				switch v := c.Value.(type) {
				case *ssa.Function:
					push(v)
				case *ssa.MakeClosure:
					push(v.Fn.(*ssa.Function))
				case *ssa.Builtin:
				default:
					if sig, _ := c.Value.Type().Underlying().(*types.Signature); sig != nil {
						for _, g := range a.funcs {
							if g.Signature.Recv() == nil && types.Identical(stripRecv(g.Signature), sig) {
								push(g)
							}
						}
					}
				}
				// function values passed as arguments may be called by the callee
				for _, arg := range c.Args {
					if fv, ok := arg.(*ssa.Function); ok {
						push(fv)
					}
				}
			}
		}
	}
	var keep []*ssa.Function
	for _, f := range a.funcs {
		if reach[f] {
			keep = append(keep, f)
		}
	}
	a.funcs = keep
}

// Exempt registers a reviewed exception: the function's writes are not propagated.
func (a *Analysis) Exempt(fn, reason string) { a.exempt[fn] = reason }

// Solve iterates all summaries to the least fixpoint.
func (a *Analysis) Solve() int {
	rounds := 0
	for {
		rounds++
		changed := false
		for _, f := range a.funcs {
			old := a.sums[f].size()
			t0 := time.Now()
			a.analyse(f)
			if d := time.Since(t0); os.Getenv("GTSVERIF_TRACE") != "" {
				fmt.Fprintf(os.Stderr, "round %d %s %v types=%d\n", rounds, f.String(), d, len(a.tlist))
			}
			if a.sums[f].size() != old {
				changed = true
			}
		}
		if !changed || rounds > 40 {
			break
		}
	}
	return rounds
}

type fstate struct {
	a         *Analysis
	fn        *ssa.Function
	pts       map[ssa.Value]objset
	cont      map[obj]objset
	nPar      int
	alloc     map[ssa.Instruction]int
	next      int
	sum       *summary
	ch        bool
	contCache map[obj]objset
	dirty     map[obj]bool
	clCache   map[ssa.Value]objset
}

func (s *fstate) allocRoot(i ssa.Instruction) int {
	if r, ok := s.alloc[i]; ok {
		return r
	}
	s.next++
	s.alloc[i] = allocBase + s.next
	return s.alloc[i]
}

func (s *fstate) get(v ssa.Value) objset {
	switch x := v.(type) {
	case *ssa.Global:
		os := objset{}
		os.add(obj{rootGlobal, s.a.tid(x.Type().(*types.Pointer).Elem())})
		return os
	case *ssa.Const, *ssa.Function, *ssa.Builtin:
		return nil
	}
	return s.pts[v]
}

func (s *fstate) set(v ssa.Value, os objset) {
	if len(os) == 0 {
		return
	}
	cur := s.pts[v]
	if cur == nil {
		cur = objset{}
		s.pts[v] = cur
	}
	if cur.addAll(os) {
		s.ch = true
	}
}

func isArgRoot(r int) bool { return r >= 0 && r < allocBase }

// contents of an object: explicit stores plus, for parameter/global roots, the
// implicit contents given by the cell type.
func (s *fstate) contents(o obj) objset {
	if c, ok := s.contCache[o]; ok && !s.dirty[o] {
		return c
	}
	out := objset{}
	out.addAll(s.cont[o])
	if isArgRoot(o.root) || o.root == rootGlobal {
		ts, wild := s.a.refTargets(s.a.tlist[o.typ])
		for t := range ts {
			out.add(obj{o.root, t})
		}
		if wild {
			for t := range s.a.tlist {
				out.add(obj{o.root, t})
			}
		}
	}
	if s.contCache == nil {
		s.contCache = map[obj]objset{}
		s.dirty = map[obj]bool{}
	}
	s.contCache[o] = out
	delete(s.dirty, o)
	return out
}

func (s *fstate) closure(os objset) objset {
	out := objset{}
	var work []obj
	for o := range os {
		if out.add(o) {
			work = append(work, o)
		}
	}
	for len(work) > 0 {
		o := work[len(work)-1]
		work = work[:len(work)-1]
		for c := range s.contents(o) {
			if out.add(c) {
				work = append(work, c)
			}
		}
	}
	return out
}

// encloses: the cell of type u contains, by value, a cell of type t that an
// address of static pointer/slice type can point into. Arrays enclose their
// elements (slices of arrays); structs enclose their fields only for pointers.
func (a *Analysis) arrayOf(u, t int) bool {
	for {
		arr, ok := a.tlist[u].Underlying().(*types.Array)
		if !ok {
			return false
		}
		u = a.tid(arr.Elem())
		if u == t {
			return true
		}
	}
}

// filter keeps the objects a value of static type t can reference.
func (s *fstate) filter(os objset, t types.Type) objset {
	ts, wild := s.a.refTargets(t)
	if wild {
		return os
	}
	var ptrTarget = -1
	if p, ok := t.Underlying().(*types.Pointer); ok {
		ptrTarget = s.a.tid(p.Elem())
	}
	out := objset{}
	for o := range os {
		if ts[o.typ] {
			out.add(o)
			continue
		}
		if ptrTarget >= 0 && s.a.embedsType(o.typ, ptrTarget) {
			out.add(o) // interior pointer into an enclosing cell
			continue
		}
		for tt := range ts {
			if s.a.arrayOf(o.typ, tt) {
				out.add(o) // slice of an array cell
				break
			}
		}
	}
	return out
}

func (s *fstate) load(addr objset, t types.Type) objset {
	out := objset{}
	for o := range addr {
		out.addAll(s.contents(o))
	}
	return s.filter(out, t)
}

func (s *fstate) addCont(dst objset, val objset) {
	for o := range dst {
		c := s.cont[o]
		if c == nil {
			c = objset{}
			s.cont[o] = c
		}
		if c.addAll(val) {
			s.ch = true
			if s.dirty != nil {
				s.dirty[o] = true
			}
			s.clCache = nil
		}
	}
}

func (s *fstate) write(dst objset, pos token.Pos, what string, via *ssa.Function, viaK key) {
	for o := range dst {
		if o.root == rootGlobal {
			if _, ok := s.sum.gmut[o.typ]; !ok {
				s.sum.gmut[o.typ] = Witness{Pos: pos, What: what, Via: via, ViaK: viaK}
				s.ch = true
			}
			continue
		}
		if !isArgRoot(o.root) {
			continue
		}
		k := key{o.root, o.typ}
		if _, ok := s.sum.mut[k]; !ok {
			s.sum.mut[k] = Witness{Pos: pos, What: what, Via: via, ViaK: viaK}
			s.ch = true
		}
	}
}

func (a *Analysis) analyse(f *ssa.Function) {
	s := &fstate{a: a, fn: f, pts: map[ssa.Value]objset{}, cont: map[obj]objset{}, alloc: map[ssa.Instruction]int{}, sum: a.sums[f]}
	s.nPar = len(f.Params)
	for i, p := range f.Params {
		s.initParam(p, i)
	}
	for j, fv := range f.FreeVars {
		s.initParam(fv, s.nPar+j)
	}
	for iter := 0; iter < 50; iter++ {
		s.ch = false
		for _, b := range f.Blocks {
			for _, ins := range b.Instrs {
				s.instr(ins)
			}
		}
		if !s.ch {
			break
		}
	}
	if d := os.Getenv("GTSVERIF_DUMP"); d != "" && strings.HasSuffix(f.String(), d) {
		a.dump(s)
	}
	// summary: results
	for _, b := range f.Blocks {
		for _, ins := range b.Instrs {
			ret, ok := ins.(*ssa.Return)
			if !ok {
				continue
			}
			for _, rv := range ret.Results {
				for o := range s.closure(s.get(rv)) {
					if isArgRoot(o.root) {
						s.sum.ret[key{o.root, o.typ}] = true
					} else if o.root >= allocBase {
						s.sum.fresh[o.typ] = true
					}
				}
			}
		}
	}
	// summary: stores into parameter objects
	for o, c := range s.cont {
		if !isArgRoot(o.root) {
			continue
		}
		k := key{o.root, o.typ}
		for v := range s.closure(c) {
			if isArgRoot(v.root) {
				if s.sum.stores[k] == nil {
					s.sum.stores[k] = map[key]bool{}
				}
				s.sum.stores[k][key{v.root, v.typ}] = true
			} else if v.root >= allocBase {
				if s.sum.storesFresh[k] == nil {
					s.sum.storesFresh[k] = map[int]bool{}
				}
				s.sum.storesFresh[k][v.typ] = true
			}
		}
	}
}

func (s *fstate) initParam(p ssa.Value, root int) {
	os := objset{}
	t := p.Type()
	ts, wild := s.a.refTargets(t)
	for tt := range ts {
		os.add(obj{root, tt})
	}
	if wild {
		for tt := range s.a.tlist {
			os.add(obj{root, tt})
		}
	}
	s.pts[p] = os
}

func isNilConst(v ssa.Value) bool {
	c, ok := v.(*ssa.Const)
	return ok && c.IsNil()
}

func (s *fstate) instr(ins ssa.Instruction) {
	switch x := ins.(type) {
	case *ssa.Alloc:
		os := objset{}
		os.add(obj{s.allocRoot(x), s.a.tid(x.Type().(*types.Pointer).Elem())})
		s.set(x, os)
	case *ssa.MakeSlice:
		os := objset{}
		os.add(obj{s.allocRoot(x), s.a.tid(x.Type().Underlying().(*types.Slice).Elem())})
		s.set(x, os)
	case *ssa.MakeMap:
		os := objset{}
		os.add(obj{s.allocRoot(x), s.a.tid(x.Type().Underlying().(*types.Map).Elem())})
		s.set(x, os)
	case *ssa.MakeChan:
	case *ssa.MakeInterface:
		s.set(x, s.get(x.X))
	case *ssa.MakeClosure:
		os := objset{}
		for _, b := range x.Bindings {
			os.addAll(s.get(b))
		}
		s.set(x, os)
	case *ssa.Slice:
		if _, isStr := x.X.Type().Underlying().(*types.Basic); isStr {
			return
		}
		s.set(x, s.get(x.X))
	case *ssa.FieldAddr:
		s.set(x, s.get(x.X))
	case *ssa.IndexAddr:
		s.set(x, s.get(x.X))
	case *ssa.Field:
		s.set(x, s.filter(s.get(x.X), x.Type()))
	case *ssa.Index:
		s.set(x, s.filter(s.get(x.X), x.Type()))
	case *ssa.Extract:
		s.set(x, s.filter(s.get(x.Tuple), x.Type()))
	case *ssa.TypeAssert:
		s.set(x, s.filter(s.get(x.X), x.Type()))
	case *ssa.ChangeType:
		s.set(x, s.get(x.X))
	case *ssa.ChangeInterface:
		s.set(x, s.get(x.X))
	case *ssa.SliceToArrayPointer:
		s.set(x, s.get(x.X))
	case *ssa.Convert:
		// string -> []byte / []rune allocates
		if _, toSlice := x.Type().Underlying().(*types.Slice); toSlice {
			if b, ok := x.X.Type().Underlying().(*types.Basic); ok && b.Info()&types.IsString != 0 {
				os := objset{}
				os.add(obj{s.allocRoot(x), s.a.tid(x.Type().Underlying().(*types.Slice).Elem())})
				s.set(x, os)
				return
			}
		}
		s.set(x, s.get(x.X))
	case *ssa.Phi:
		for _, e := range x.Edges {
			s.set(x, s.get(e))
		}
	case *ssa.UnOp:
		if x.Op == token.MUL {
			s.set(x, s.load(s.get(x.X), x.Type()))
		}
	case *ssa.Lookup:
		if _, isMap := x.X.Type().Underlying().(*types.Map); isMap {
			s.set(x, s.load(s.get(x.X), x.Type()))
		}
	case *ssa.Range:
		s.set(x, s.get(x.X))
	case *ssa.Next:
		if !x.IsString {
			os := objset{}
			for o := range s.get(x.Iter) {
				os.addAll(s.contents(o))
			}
			s.set(x, os)
		}
	case *ssa.Store:
		dst := s.get(x.Addr)
		s.write(dst, x.Pos(), "store through "+x.Addr.Name(), nil, key{})
		s.addCont(dst, s.get(x.Val))
	case *ssa.MapUpdate:
		dst := s.get(x.Map)
		s.write(dst, x.Pos(), "map update", nil, key{})
		s.addCont(dst, s.get(x.Value))
		s.addCont(dst, s.get(x.Key))
	case *ssa.Call:
		s.call(x, &x.Call, x)
	case *ssa.Defer:
		s.call(x, &x.Call, nil)
	case *ssa.Go:
		s.call(x, &x.Call, nil)
	}
}

func posOf(ins ssa.Instruction, c *ssa.CallCommon) token.Pos {
	if p := ins.Pos(); p.IsValid() {
		return p
	}
	return c.Pos()
}

func (s *fstate) call(ins ssa.Instruction, c *ssa.CallCommon, res ssa.Value) {
	pos := posOf(ins, c)
	// builtins
	if b, ok := c.Value.(*ssa.Builtin); ok {
		switch b.Name() {
		case "append":
			x := c.Args[0]
			out := objset{}
			out.addAll(s.get(x))
			fresh := obj{s.allocRoot(ins), s.a.tid(res.Type().Underlying().(*types.Slice).Elem())}
			out.add(fresh)
			if !isNilConst(x) && !fullSlice(x) {
				s.write(s.get(x), pos, "append may write into the spare capacity of its first argument", nil, key{})
			}
			if len(c.Args) > 1 {
				src := objset{}
				for o := range s.get(c.Args[1]) {
					src.addAll(s.contents(o))
				}
				s.addCont(out, src)
			}
			s.set(res, out)
		case "copy":
			dst := s.get(c.Args[0])
			s.write(dst, pos, "copy into its first argument", nil, key{})
			src := objset{}
			for o := range s.get(c.Args[1]) {
				src.addAll(s.contents(o))
			}
			s.addCont(dst, src)
		case "delete":
			s.write(s.get(c.Args[0]), pos, "delete from map", nil, key{})
		}
		return
	}
	var callees []*ssa.Function
	args := c.Args
	switch {
	case c.IsInvoke():
		args = append([]ssa.Value{c.Value}, c.Args...)
		iface, _ := c.Value.Type().Underlying().(*types.Interface)
		if iface != nil {
			for _, t := range s.a.implementers(iface) {
				ms := s.a.prog.SSA.MethodSets.MethodSet(t)
				if sel := ms.Lookup(c.Method.Pkg(), c.Method.Name()); sel != nil {
					if f := s.a.prog.SSA.MethodValue(sel); f != nil {
						callees = append(callees, f)
					}
				}
			}
		}
		if len(callees) == 0 {
			s.external(ins, c, res, c.Method.FullName(), args)
			return
		}
	default:
		switch v := c.Value.(type) {
		case *ssa.Function:
			callees = []*ssa.Function{v}
		case *ssa.MakeClosure:
			callees = []*ssa.Function{v.Fn.(*ssa.Function)}
		default:
			// dynamic call: every repo function or closure with this signature
			sig, _ := c.Value.Type().Underlying().(*types.Signature)
			if sig != nil {
				for _, f := range s.a.funcs {
					if f.Signature.Recv() == nil && types.Identical(stripRecv(f.Signature), sig) {
						callees = append(callees, f)
					}
				}
			}
		}
	}
	for _, g := range callees {
		if g.Blocks == nil || s.a.sums[g] == nil {
			// a method expression of an interface, `Location.Shift`, is a synthetic thunk whose first
			// parameter is the receiver: the call is the interface call it wraps
			if impls := s.a.thunkTargets(g); len(impls) > 0 && len(args) > 0 {
				for _, f := range impls {
					if f.Blocks != nil && s.a.sums[f] != nil {
						s.apply(ins, pos, res, f, args, c.Value)
					} else {
						s.external(ins, c, res, f.String(), args)
					}
				}
				continue
			}
			s.external(ins, c, res, g.String(), args)
			continue
		}
		s.apply(ins, pos, res, g, args, c.Value)
	}
}

// thunkTargets: for the synthetic thunk of an interface method expression, the methods of the
// repository types that implement the interface.
func (a *Analysis) thunkTargets(g *ssa.Function) []*ssa.Function {
	if g.Synthetic == "" || !strings.HasSuffix(g.Name(), "$thunk") || len(g.Params) == 0 {
		return nil
	}
	iface, _ := g.Params[0].Type().Underlying().(*types.Interface)
	if iface == nil {
		return nil
	}
	name := strings.TrimSuffix(g.Name(), "$thunk")
	var method *types.Func
	for i := 0; i < iface.NumMethods(); i++ {
		if iface.Method(i).Name() == name {
			method = iface.Method(i)
		}
	}
	if method == nil {
		return nil
	}
	var out []*ssa.Function
	for _, t := range a.implementers(iface) {
		ms := a.prog.SSA.MethodSets.MethodSet(t)
		if sel := ms.Lookup(method.Pkg(), method.Name()); sel != nil {
			if f := a.prog.SSA.MethodValue(sel); f != nil {
				out = append(out, f)
			}
		}
	}
	return out
}

func fullSlice(v ssa.Value) bool {
	sl, ok := v.(*ssa.Slice)
	return ok && sl.Max != nil && sl.High != nil && sl.Max == sl.High
}

// apply instantiates g's summary at a call site.
func (s *fstate) apply(ins ssa.Instruction, pos token.Pos, res ssa.Value, g *ssa.Function, args []ssa.Value, fnVal ssa.Value) {
	sum := s.a.sums[g]
	nPar := len(g.Params)
	closures := make([]objset, nPar+len(g.FreeVars))
	actual := func(k key) objset {
		var base objset
		if k.param < nPar {
			if k.param >= len(args) {
				return nil
			}
			if closures[k.param] == nil {
				closures[k.param] = s.closure(s.get(args[k.param]))
			}
			base = closures[k.param]
		} else {
			// free variable of a closure: whatever the function value carries
			if closures[k.param] == nil {
				closures[k.param] = s.closure(s.get(fnVal))
			}
			base = closures[k.param]
		}
		// the cell a pointer parameter points at may be interior to a larger caller cell
		interior := false
		if k.param < nPar {
			if pt, ok := g.Params[k.param].Type().Underlying().(*types.Pointer); ok && s.a.tid(pt.Elem()) == k.typ {
				interior = true
			}
		} else if j := k.param - nPar; j < len(g.FreeVars) {
			if pt, ok := g.FreeVars[j].Type().Underlying().(*types.Pointer); ok && s.a.tid(pt.Elem()) == k.typ {
				interior = true
			}
		}
		out := objset{}
		for o := range base {
			if o.typ == k.typ || s.a.arrayOf(o.typ, k.typ) || (interior && s.a.embedsType(o.typ, k.typ)) {
				out.add(o)
			}
		}
		return out
	}
	if reason, ok := s.a.exempt[g.String()]; !ok || reason == "" {
		for k, w := range sum.mut {
			_ = w
			s.write(actual(k), pos, "call of "+g.String(), g, k)
		}
		for t := range sum.gmut {
			if _, ok := s.sum.gmut[t]; !ok {
				s.sum.gmut[t] = Witness{Pos: pos, What: "call of " + g.String(), Via: g, ViaK: key{-1, t}}
				s.ch = true
			}
		}
	}
	for dst, srcs := range sum.stores {
		d := actual(dst)
		for src := range srcs {
			s.addCont(d, actual(src))
		}
	}
	for dst, fts := range sum.storesFresh {
		d := actual(dst)
		fr := objset{}
		for t := range fts {
			fr.add(obj{s.allocRoot(ins), t})
		}
		s.addCont(d, fr)
	}
	if res == nil {
		return
	}
	out := objset{}
	for k := range sum.ret {
		out.addAll(actual(k))
	}
	fresh := objset{}
	for t := range sum.fresh {
		fresh.add(obj{s.allocRoot(ins), t})
	}
	// fresh result memory may contain anything else the result can reference
	all := objset{}
	all.addAll(out)
	all.addAll(fresh)
	for fo := range fresh {
		s.addCont(objset{fo: {}}, s.filter(all, s.a.tlist[fo.typ]))
	}
	out.addAll(fresh)
	s.set(res, s.filter(out, res.Type()))
}

// ---- library axioms -------------------------------------------------------

var purePkgs = map[string]bool{"bytes": true, "strings": true, "fmt": true, "reflect": true, "regexp": true, "strconv": true, "errors": true,
	"unicode": true, "unicode/utf8": true, "index/suffixarray": true, "time": true, "path/filepath": true, "math": true,
	"github.com/go-pars/pars": true, "github.com/go-ascii/ascii": true, "github.com/go-wrap/wrap": true, "io": true, "bufio": true}

// mutators: callee -> index of the argument whose referents it writes.
var mutators = map[string]int{
	"sort.Sort": 0, "sort.Stable": 0, "sort.Slice": 0, "sort.SliceStable": 0, "sort.Strings": 0, "sort.Ints": 0,
	"github.com/go-flip/flip.Bytes": 0, "github.com/go-flip/flip.Flip": 0, "io.ReadFull": 1, "math/rand.Shuffle": 0,
	"(io.Reader).Read": 1, "(*bytes.Buffer).Read": 1,
}

// writers: methods that write into their *receiver* (a buffer the caller owns); receiver index 0.
var recvWriters = map[string]bool{
	"(*bytes.Buffer).Write": true, "(*bytes.Buffer).WriteByte": true, "(*bytes.Buffer).WriteString": true, "(*bytes.Buffer).WriteRune": true,
	"(*strings.Builder).Write": true, "(*strings.Builder).WriteByte": true, "(*strings.Builder).WriteString": true, "(*strings.Builder).WriteRune": true,
	"(io.Writer).Write": true, "(hash.Hash).Write": true, "io.WriteString": true, "(*bufio.Writer).Write": true, "(*bufio.Writer).Flush": true,
}

func carries(t types.Type) bool {
	switch u := t.Underlying().(type) {
	case *types.Slice, *types.Pointer, *types.Map, *types.Interface, *types.Chan, *types.Signature:
		return true
	case *types.Struct:
		for i := 0; i < u.NumFields(); i++ {
			if carries(u.Field(i).Type()) {
				return true
			}
		}
	case *types.Array:
		return carries(u.Elem())
	}
	return false
}

// callsArg: pure library functions that call the function value passed at the given index.
var callsArg = map[string]int{"sort.Search": 1, "sort.Slice": 1, "sort.SliceStable": 1, "strings.Map": 0, "bytes.Map": 0,
	"strings.FieldsFunc": 1, "bytes.FieldsFunc": 1, "strings.IndexFunc": 1, "bytes.IndexFunc": 1}

// openWorld: methods of caller-supplied values behind repo-declared interfaces that no repo type
// implements; the axiom is that such callbacks do not write their receiver.
var openWorld = map[string]bool{
	"(" + core.PkgGts + ".Expandable).Expand": true, "(" + core.PkgGts + ".Shiftable).Shift": true, "(" + core.PkgGts + ".Sliceable).Slice": true,
	"(interface).Unwrap": true, "(error).Error": true, "(fmt.Stringer).String": true, "(interface).Len": true,
}

func (s *fstate) external(ins ssa.Instruction, c *ssa.CallCommon, res ssa.Value, name string, args []ssa.Value) {
	pos := posOf(ins, c)
	if idx, ok := callsArg[name]; ok && idx < len(args) {
		// the library calls the function value: apply every function it may denote
		switch fv := args[idx].(type) {
		case *ssa.MakeClosure:
			s.apply(ins, pos, nil, fv.Fn.(*ssa.Function), nil, fv)
		case *ssa.Function:
			if s.a.sums[fv] != nil {
				s.apply(ins, pos, nil, fv, nil, fv)
			}
		default:
			if sig, _ := args[idx].Type().Underlying().(*types.Signature); sig != nil {
				for _, f := range s.a.funcs {
					if f.Signature.Recv() == nil && types.Identical(stripRecv(f.Signature), sig) {
						s.apply(ins, pos, nil, f, nil, args[idx])
					}
				}
			}
		}
	}
	pkg := ""
	if f, ok := c.Value.(*ssa.Function); ok && f.Pkg != nil {
		pkg = f.Pkg.Pkg.Path()
	} else if c.IsInvoke() && c.Method.Pkg() != nil {
		pkg = c.Method.Pkg().Path()
	} else if f, ok := c.Value.(*ssa.Function); ok && f.Signature.Recv() != nil {
		if n, ok := deref(f.Signature.Recv().Type()).(*types.Named); ok && n.Obj().Pkg() != nil {
			pkg = n.Obj().Pkg().Path()
		}
	}
	// does any argument carry argument-rooted mutable memory?
	argRooted := false
	for _, a := range args {
		if !carries(a.Type()) {
			continue
		}
		for o := range s.closure(s.get(a)) {
			if isArgRoot(o.root) {
				argRooted = true
			}
		}
	}
	if idx, ok := mutators[name]; ok {
		if idx < len(args) {
			s.write(s.get(args[idx]), pos, "library call "+name+" writes its argument", nil, key{})
		}
		if argRooted {
			s.a.External[name]++
		}
	} else if recvWriters[name] {
		// writes only the receiver's own buffer: a write to memory reachable from the receiver
		if len(args) > 0 {
			s.write(s.get(args[0]), pos, "library call "+name+" writes its receiver", nil, key{})
		}
		if argRooted {
			s.a.External[name]++
		}
	} else if _, isHO := callsArg[name]; isHO || openWorld[name] || purePkgs[pkg] {
		if argRooted {
			s.a.External[name]++
		}
	} else if argRooted {
		if _, seen := s.a.Unknown[name]; !seen {
			s.a.Unknown[name] = pos
		}
	}
	if res == nil {
		return
	}
	// result: fresh memory that may also alias any argument
	out := objset{}
	for _, a := range args {
		out.addAll(s.closure(s.get(a)))
	}
	ts, _ := s.a.refTargets(res.Type())
	for t := range ts {
		out.add(obj{s.allocRoot(ins), t})
	}
	s.set(res, s.filter(out, res.Type()))
}

func deref(t types.Type) types.Type {
	if p, ok := t.(*types.Pointer); ok {
		return p.Elem()
	}
	return t
}

// Mut returns the parameter writes of a function with a rendered witness chain.
type Write struct {
	Param    int
	CellType string
	Chain    []string
	Root     *ssa.Function // the innermost function that performs the write
	RootPos  token.Pos
}

func (a *Analysis) Writes(f *ssa.Function) []Write {
	sum := a.sums[f]
	if sum == nil {
		return nil
	}
	var out []Write
	for k, w := range sum.mut {
		wr := Write{Param: k.param, CellType: types.TypeString(a.tlist[k.typ], func(p *types.Package) string { return p.Name() })}
		cur, curW, curF := k, w, f
		for depth := 0; depth < 12; depth++ {
			wr.Chain = append(wr.Chain, fmt.Sprintf("%s: %s (%s)", curF.String(), curW.What, a.prog.Pos(curW.Pos)))
			wr.Root, wr.RootPos = curF, curW.Pos
			if curW.Via == nil {
				break
			}
			var next Witness
			var ok bool
			if curW.ViaK.param == -1 {
				next, ok = a.sums[curW.Via].gmut[curW.ViaK.typ]
			} else {
				next, ok = a.sums[curW.Via].mut[curW.ViaK]
			}
			if !ok {
				break
			}
			curF, cur, curW = curW.Via, curW.ViaK, next
		}
		_ = cur
		out = append(out, wr)
	}
	sort.Slice(out, func(i, j int) bool {
		if out[i].Param != out[j].Param {
			return out[i].Param < out[j].Param
		}
		return out[i].CellType < out[j].CellType
	})
	return out
}

// GlobalWrites lists the package-level memory f (or anything it calls) may write.
func (a *Analysis) GlobalWrites(f *ssa.Function) []Write {
	sum := a.sums[f]
	if sum == nil {
		return nil
	}
	var out []Write
	for t, w := range sum.gmut {
		wr := Write{Param: -1, CellType: types.TypeString(a.tlist[t], func(p *types.Package) string { return p.Name() })}
		curW, curF := w, f
		for depth := 0; depth < 12; depth++ {
			wr.Chain = append(wr.Chain, fmt.Sprintf("%s: %s (%s)", curF.String(), curW.What, a.prog.Pos(curW.Pos)))
			wr.Root, wr.RootPos = curF, curW.Pos
			if curW.Via == nil {
				break
			}
			var next Witness
			var ok bool
			if curW.ViaK.param == -1 {
				next, ok = a.sums[curW.Via].gmut[curW.ViaK.typ]
			} else {
				next, ok = a.sums[curW.Via].mut[curW.ViaK]
			}
			if !ok {
				break
			}
			curF, curW = curW.Via, next
		}
		out = append(out, wr)
	}
	sort.Slice(out, func(i, j int) bool { return out[i].CellType < out[j].CellType })
	return out
}

// Funcs lists the analysed functions.
func (a *Analysis) Funcs() []*ssa.Function { return a.funcs }

func (a *Analysis) objStr(o obj) string {
	return fmt.Sprintf("(%d,%s)", o.root, types.TypeString(a.tlist[o.typ], func(p *types.Package) string { return p.Name() }))
}

func (a *Analysis) dump(s *fstate) {
	fmt.Fprintf(os.Stderr, "==== %s\n", s.fn.String())
	for _, b := range s.fn.Blocks {
		for _, ins := range b.Instrs {
			v, ok := ins.(ssa.Value)
			if !ok {
				continue
			}
			var xs []string
			for o := range s.pts[v] {
				xs = append(xs, a.objStr(o))
			}
			sort.Strings(xs)
			if len(xs) > 12 {
				xs = append(xs[:12], fmt.Sprintf("... %d total", len(s.pts[v])))
			}
			fmt.Fprintf(os.Stderr, "  %s = %s   :: %s\n", v.Name(), ins.String(), strings.Join(xs, " "))
		}
	}
	sum := s.sum
	for k, w := range sum.mut {
		fmt.Fprintf(os.Stderr, "  MUT (%d,%s) %s\n", k.param, a.tlist[k.typ], w.What)
	}
	var rs []string
	for k := range sum.ret {
		rs = append(rs, a.objStr(obj{k.param, k.typ}))
	}
	sort.Strings(rs)
	fmt.Fprintf(os.Stderr, "  RET %v\n", rs)
}

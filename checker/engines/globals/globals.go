// Package globals decides rule STATELESS: after package initialisation no
// function of the library packages writes package-level memory. It is a
// flow-insensitive alias/effect analysis on the type-checked syntax trees:
//
//   - per function unit (a declaration together with the literals nested in it,
//     or a literal inside a package-level initialiser), the set of local
//     variables that may reference memory reachable from a set of sources
//     (package-level variables, or the unit's own parameters) is computed to a
//     fixpoint over assignments, range clauses and call results;
//   - a write is a store through such a variable (index, field through a
//     pointer, dereference), a rebinding of a package-level variable, append
//     into / copy into / delete from such memory, a pointer-receiver method of
//     a foreign type applied to it (Lock, Store, Write, Reset ...), a library
//     mutator (sort.*, flip.*) applied to it, or passing it to a repository
//     function whose summary says the parameter may be written;
//   - the parameter summaries are iterated to a fixpoint over the repository.
//
// The analysis is coarser than the type-partitioned effect analysis of C11 (it
// does not separate cell types) but it is cheap and covers every function,
// including the parser closures that the C11 analysis leaves out.
package globals

import (
	"fmt"
	"go/ast"
	"go/token"
	"go/types"
	"sort"
	"strings"

	"gtsverif/core"
)

// unit is one analysed body.
type unit struct {
	pkg    string
	name   string
	body   *ast.BlockStmt
	params []types.Object // receiver first
	isInit bool
	fn     *types.Func // nil for literals in initialisers
	pos    token.Pos
}

type write struct {
	pos  token.Pos
	what string
	src  types.Object // the source (global or parameter) the written memory derives from
	lhs  ast.Expr     // the assigned expression for plain stores (nil for append/copy/calls)
}

type analysis struct {
	p       *core.Prog
	units   []*unit
	byFunc  map[*types.Func]*unit
	written map[*types.Func]map[int]string // param index -> witness
}

func refKind(t types.Type) bool {
	if t == nil {
		return false
	}
	switch u := t.Underlying().(type) {
	case *types.Pointer, *types.Slice, *types.Map, *types.Chan, *types.Interface, *types.Signature:
		return true
	case *types.Struct:
		for i := 0; i < u.NumFields(); i++ {
			if refKind(u.Field(i).Type()) {
				return true
			}
		}
	case *types.Array:
		return refKind(u.Elem())
	}
	return false
}

func isRepo(pk *types.Package) bool {
	return pk != nil && strings.HasPrefix(pk.Path(), core.Mod)
}

func isPkgVar(o types.Object) bool {
	v, ok := o.(*types.Var)
	if !ok || v.IsField() || v.Pkg() == nil {
		return false
	}
	return v.Parent() == v.Pkg().Scope()
}

// base walks an expression down to the identifier it is rooted in. deref says
// whether the path passes through memory the root merely references (slice or
// map element, pointer target), as opposed to the root variable's own cells.
func base(info *types.Info, e ast.Expr) (root types.Object, deref bool) {
	root, n := baseDepth(info, e)
	return root, n > 0
}

// baseDepth is base with the number of dereferences on the path.
func baseDepth(info *types.Info, e ast.Expr) (root types.Object, depth int) {
	root, depth, _ = basePath(info, e)
	return
}

// basePath also names the field selected first on the way from the root
// ("" if the path selects none): x.f.g[i] -> (x, ..., "f").
func basePath(info *types.Info, e ast.Expr) (root types.Object, depth int, field string) {
	deref := false
	mark := func() {
		if deref {
			depth++
			deref = false
		}
	}
	defer mark()
	for {
		mark()
		switch x := ast.Unparen(e).(type) {
		case *ast.Ident:
			if o := info.Uses[x]; o != nil {
				return o, depth, field
			}
			return info.Defs[x], depth, field
		case *ast.IndexExpr:
			if tv, ok := info.Types[x.X]; ok && tv.Type != nil {
				switch tv.Type.Underlying().(type) {
				case *types.Slice, *types.Map, *types.Pointer:
					deref = true
				}
			}
			e = x.X
		case *ast.SliceExpr:
			if tv, ok := info.Types[x.X]; ok && tv.Type != nil {
				if _, isArr := tv.Type.Underlying().(*types.Array); !isArr {
					deref = true
				}
			}
			e = x.X
		case *ast.SelectorExpr:
			if sel := info.Selections[x]; sel != nil {
				if sel.Kind() == types.FieldVal {
					field = x.Sel.Name
				}
				if sel.Indirect() {
					deref = true
				} else if tv, ok := info.Types[x.X]; ok && tv.Type != nil {
					if _, isPtr := tv.Type.Underlying().(*types.Pointer); isPtr {
						deref = true
					}
				}
				e = x.X
				continue
			}
			// qualified identifier pkg.Name
			if o := info.Uses[x.Sel]; o != nil {
				return o, depth, field
			}
			return nil, depth, field
		case *ast.StarExpr:
			deref = true
			e = x.X
		case *ast.UnaryExpr:
			if x.Op != token.AND {
				return nil, depth, field
			}
			e = x.X
		case *ast.TypeAssertExpr:
			e = x.X
		case *ast.CallExpr:
			if core.IsConversion(info, x) && len(x.Args) == 1 {
				e = x.Args[0]
				continue
			}
			return nil, depth, field
		default:
			return nil, depth, field
		}
	}
}

// freshExternal: external functions whose results never alias their arguments.
func freshExternal(id string) bool {
	for _, p := range []string{"bytes.ToLower", "bytes.ToUpper", "bytes.Join", "bytes.Repeat", "bytes.ReplaceAll", "bytes.Replace", "bytes.Map",
		"strings.", "fmt.", "strconv.", "regexp.", "errors.", "index/suffixarray.New", "sort.Search", "unicode", "time.", "math.", "reflect.DeepEqual"} {
		if strings.HasPrefix(id, p) {
			return true
		}
	}
	return false
}

// aliasFirstOnly: external functions whose result is (pieces of) their first operand and nothing else.
var aliasFirstOnly = map[string]bool{
	"bytes.Split": true, "bytes.SplitN": true, "bytes.SplitAfter": true, "bytes.SplitAfterN": true, "bytes.Fields": true,
	"bytes.TrimSuffix": true, "bytes.TrimPrefix": true, "bytes.TrimSpace": true, "bytes.Trim": true, "bytes.TrimLeft": true,
	"bytes.TrimRight": true, "bytes.TrimFunc": true, "bytes.TrimLeftFunc": true, "bytes.TrimRightFunc": true,
}

// externalMutator: the argument positions an external callee may write through.
func externalMutator(id string) []int {
	switch id {
	case "sort.Sort", "sort.Stable", "sort.Slice", "sort.SliceStable", "sort.Strings", "sort.Ints", "sort.Float64s",
		"github.com/go-flip/flip.Bytes", "github.com/go-flip/flip.Flip", "math/rand.Shuffle", "io.ReadFull", "io.ReadAtLeast":
		if id == "io.ReadFull" || id == "io.ReadAtLeast" {
			return []int{1}
		}
		return []int{0}
	}
	return nil
}

func (a *analysis) collect(pkgs ...string) {
	a.byFunc = map[*types.Func]*unit{}
	for _, pkg := range pkgs {
		pk := a.p.Pkgs[pkg]
		info := pk.TypesInfo
		for _, file := range pk.Syntax {
			for _, d := range file.Decls {
				switch x := d.(type) {
				case *ast.FuncDecl:
					if x.Body == nil {
						continue
					}
					fn, _ := info.Defs[x.Name].(*types.Func)
					u := &unit{pkg: pkg, name: core.DeclName(x), body: x.Body, fn: fn, pos: x.Pos()}
					u.isInit = x.Recv == nil && x.Name.Name == "init"
					if x.Recv != nil {
						for _, f := range x.Recv.List {
							for _, n := range f.Names {
								u.params = append(u.params, info.Defs[n])
							}
							if len(f.Names) == 0 {
								u.params = append(u.params, nil)
							}
						}
					}
					for _, f := range x.Type.Params.List {
						for _, n := range f.Names {
							u.params = append(u.params, info.Defs[n])
						}
						if len(f.Names) == 0 {
							u.params = append(u.params, nil)
						}
					}
					a.units = append(a.units, u)
					if fn != nil {
						a.byFunc[fn] = u
					}
				case *ast.GenDecl:
					if x.Tok != token.VAR {
						continue
					}
					// literals inside package-level initialisers run after initialisation
					for _, sp := range x.Specs {
						vs := sp.(*ast.ValueSpec)
						k := 0
						for _, v := range vs.Values {
							ast.Inspect(v, func(n ast.Node) bool {
								if fl, ok := n.(*ast.FuncLit); ok {
									k++
									name := "var"
									if len(vs.Names) > 0 {
										name = vs.Names[0].Name
									}
									u := &unit{pkg: pkg, name: fmt.Sprintf("%s$%d", name, k), body: fl.Body, pos: fl.Pos()}
									for _, f := range fl.Type.Params.List {
										for _, n := range f.Names {
											u.params = append(u.params, info.Defs[n])
										}
									}
									a.units = append(a.units, u)
									return false
								}
								return true
							})
						}
					}
				}
			}
		}
	}
}

// derived computes the local variables of u that may reference memory
// reachable from a source; it maps each to (one of) the sources it derives from.
//
// Two levels are kept apart. A variable is a DIRECT alias when the memory it
// refers to immediately (the backing array of a slice, the target of a pointer,
// the map, or for a struct-valued variable the targets of its reference fields)
// may be source memory. It merely CONTAINS source references when that immediate
// memory is its own (made, appended to from empty, a fresh literal) but holds
// pointers into source memory: storing into such a container (x[i] = v,
// append(x, v)) touches only the container, a store two dereferences down
// (x[i].f = v through a pointer element) touches the source.
func (a *analysis) derived(u *unit, isSource func(types.Object) bool) *derivation {
	info := a.p.Info(u.pkg)
	der := map[types.Object]types.Object{}
	direct := map[types.Object]bool{}
	fder := map[types.Object]map[string]*fieldDer{}
	// level: the source e may reference, and how: 0 not at all, 1 e's own fresh memory holds
	// references into it, 2 e may be a direct alias of source memory
	var level func(e ast.Expr) (types.Object, int)
	level = func(e ast.Expr) (types.Object, int) {
		if e == nil {
			return nil, 0
		}
		e = ast.Unparen(e)
		var src types.Object
		lv := 0
		join := func(o types.Object, l int) {
			if o == nil || l == 0 {
				return
			}
			if src == nil {
				src = o
			}
			if l > lv {
				lv = l
			}
		}
		switch x := e.(type) {
		case *ast.CallExpr:
			if core.IsConversion(info, x) {
				if len(x.Args) == 1 {
					return level(x.Args[0])
				}
				return nil, 0
			}
			if fn := core.Callee(info, x); fn != nil && !isRepo(fn.Pkg()) && freshExternal(core.FuncID(fn)) {
				return nil, 0
			}
			if core.IsBuiltin(info, x, "len") || core.IsBuiltin(info, x, "cap") || core.IsBuiltin(info, x, "make") || core.IsBuiltin(info, x, "new") {
				return nil, 0
			}
			if core.IsBuiltin(info, x, "append") && len(x.Args) > 0 {
				// the result is the first operand's array or a fresh one; the appended values are held in it
				join(level(x.Args[0]))
				for _, arg := range x.Args[1:] {
					if tv, ok := info.Types[arg]; ok && refKind(tv.Type) {
						if o, l := level(arg); l > 0 {
							join(o, 1)
						}
					}
				}
				return src, lv
			}
			// library functions whose result is a piece of their FIRST operand only (a separator or cut set
			// is read, never handed back)
			if fn := core.Callee(info, x); fn != nil && aliasFirstOnly[core.FuncID(fn)] && len(x.Args) > 0 {
				if o, l := level(x.Args[0]); l > 0 {
					join(o, 2)
				}
				return src, lv
			}
			// any other result may alias anything reachable from a reference-kind operand (receiver included)
			if se, ok := ast.Unparen(x.Fun).(*ast.SelectorExpr); ok && info.Selections[se] != nil {
				if o, l := level(se.X); l > 0 {
					join(o, 2)
				}
			}
			for _, arg := range x.Args {
				if tv, ok := info.Types[arg]; ok && refKind(tv.Type) {
					if o, l := level(arg); l > 0 {
						join(o, 2)
					}
				}
			}
			return src, lv
		case *ast.UnaryExpr:
			if x.Op == token.AND {
				if cl, ok := ast.Unparen(x.X).(*ast.CompositeLit); ok {
					if o, l := level(cl); l > 0 {
						return o, 1 // &T{...}: a fresh cell holding the elements
					}
					return nil, 0
				}
			}
		case *ast.CompositeLit:
			for _, el := range x.Elts {
				if kv, ok := el.(*ast.KeyValueExpr); ok {
					el = kv.Value
				}
				if tv, ok := info.Types[el]; ok && refKind(tv.Type) {
					join(level(el))
				}
			}
			if tv, ok := info.Types[x]; ok && tv.Type != nil && lv > 1 {
				switch tv.Type.Underlying().(type) {
				case *types.Slice, *types.Map:
					lv = 1 // a fresh array or map holding the elements
				}
			}
			return src, lv
		}
		root, depth, field := basePath(info, e)
		switch {
		case root == nil:
			return nil, 0
		case isSource(root):
			return root, 2
		case der[root] != nil:
			if direct[root] || depth >= 1 {
				return der[root], 2
			}
			return der[root], 1
		case field != "" && fder[root][field] != nil:
			return fder[root][field].src, 2
		case field == "" && len(fder[root]) > 0:
			// the whole of a value one field of which holds a source reference
			var names []string
			for f := range fder[root] {
				names = append(names, f)
			}
			sort.Strings(names)
			if depth >= 1 {
				return fder[root][names[0]].src, 2
			}
			return fder[root][names[0]].src, 1
		}
		return nil, 0
	}
	srcOf := func(e ast.Expr) (types.Object, bool) {
		o, l := level(e)
		return o, l == 2
	}
	for changed := true; changed; {
		changed = false
		set := func(lhs ast.Expr, rhs ast.Expr) {
			id, ok := ast.Unparen(lhs).(*ast.Ident)
			if !ok {
				// a store into a field or element of a local or parameter: that field (or, with no
				// field on the path, the whole container) now holds the reference
				root, depth, field := basePath(info, lhs)
				if root == nil || isPkgVar(root) || der[root] != nil {
					return
				}
				if tv, ok := info.Types[rhs]; !ok || !refKind(tv.Type) {
					return
				}
				s, _ := srcOf(rhs)
				if s == nil {
					return
				}
				if field == "" {
					if isSource(root) {
						return
					}
					der[root] = s
					changed = true
					return
				}
				if fder[root] == nil {
					fder[root] = map[string]*fieldDer{}
				}
				if fd := fder[root][field]; fd == nil {
					fder[root][field] = &fieldDer{src: s, depth: depth}
					changed = true
				} else if depth < fd.depth {
					fd.depth = depth
					changed = true
				}
				return
			}
			if id.Name == "_" {
				return
			}
			o := info.Defs[id]
			if o == nil {
				o = info.Uses[id]
			}
			if o == nil || isPkgVar(o) || !refKind(o.Type()) {
				return
			}
			s, d := srcOf(rhs)
			if s == nil {
				return
			}
			if _, done := der[o]; !done {
				der[o] = s
				changed = true
			}
			if d && !direct[o] {
				direct[o] = true
				changed = true
			}
		}
		ast.Inspect(u.body, func(n ast.Node) bool {
			switch s := n.(type) {
			case *ast.AssignStmt:
				if len(s.Lhs) == len(s.Rhs) {
					for i := range s.Lhs {
						set(s.Lhs[i], s.Rhs[i])
					}
				} else if len(s.Rhs) == 1 {
					for i := range s.Lhs {
						set(s.Lhs[i], s.Rhs[0])
					}
				}
			case *ast.ValueSpec:
				for i, id := range s.Names {
					if len(s.Values) == len(s.Names) {
						set(id, s.Values[i])
					} else if len(s.Values) == 1 {
						set(id, s.Values[0])
					}
				}
			case *ast.RangeStmt:
				// the element of anything that references or holds source memory is a direct reference into it
				elem := func(lhs ast.Expr) {
					id, ok := ast.Unparen(lhs).(*ast.Ident)
					if !ok || id.Name == "_" {
						set(lhs, s.X)
						return
					}
					o := info.Defs[id]
					if o == nil {
						o = info.Uses[id]
					}
					if o == nil || isPkgVar(o) || !refKind(o.Type()) {
						return
					}
					if src, l := level(s.X); l > 0 {
						if der[o] == nil {
							der[o] = src
							changed = true
						}
						if !direct[o] {
							direct[o] = true
							changed = true
						}
					}
				}
				if s.Value != nil {
					elem(s.Value)
				}
				if s.Key != nil {
					if tv, ok := info.Types[s.X]; ok && tv.Type != nil {
						if _, isMap := tv.Type.Underlying().(*types.Map); isMap {
							elem(s.Key)
						}
					}
				}
			case *ast.TypeSwitchStmt:
				// switch v := x.(type): each clause's v is x
				as, ok := s.Assign.(*ast.AssignStmt)
				if !ok || len(as.Rhs) != 1 {
					break
				}
				ta, ok := ast.Unparen(as.Rhs[0]).(*ast.TypeAssertExpr)
				if !ok {
					break
				}
				src, l := level(ta.X)
				if l == 0 {
					break
				}
				for _, cc := range s.Body.List {
					if o := info.Implicits[cc]; o != nil && refKind(o.Type()) {
						if der[o] == nil {
							der[o] = src
							changed = true
						}
						if l == 2 && !direct[o] {
							direct[o] = true
							changed = true
						}
					}
				}
			}
			return true
		})
	}
	return &derivation{der, direct, fder}
}

// fieldDer: a field of a local that was assigned a source reference, and the depth of that store.
type fieldDer struct {
	src   types.Object
	depth int
}

type derivation struct {
	der    map[types.Object]types.Object
	direct map[types.Object]bool
	fder   map[types.Object]map[string]*fieldDer
}

// writes lists the stores of u that may land in memory reachable from a source.
func (a *analysis) writes(u *unit, isSource func(types.Object) bool, rebinding bool) []write {
	info := a.p.Info(u.pkg)
	dv := a.derived(u, isSource)
	// hit: a store `extra` dereferences below the path e lands in source memory; returns that source
	hit := func(e ast.Expr, extra int) types.Object {
		root, depth, field := basePath(info, e)
		depth += extra
		switch {
		case root == nil:
			return nil
		case isSource(root):
			if depth >= 1 || isPkgVar(root) {
				return root
			}
		case dv.der[root] != nil:
			if (dv.direct[root] && depth >= 1) || depth >= 2 {
				return dv.der[root]
			}
		case field != "":
			if fd := dv.fder[root][field]; fd != nil && depth > fd.depth {
				return fd.src
			}
		}
		return nil
	}
	var out []write
	lhsWrite := func(l ast.Expr, pos token.Pos) {
		root, _ := base(info, l)
		if root == nil {
			return
		}
		if isPkgVar(root) {
			if !isSource(root) {
				return
			}
			if _, plain := ast.Unparen(l).(*ast.Ident); plain || isQualified(info, l) {
				if rebinding {
					out = append(out, write{pos, "assignment to package variable " + root.Name(), root, l})
				}
				return
			}
			out = append(out, write{pos, "store into package variable " + root.Name() + " (" + types.ExprString(l) + ")", root, l})
			return
		}
		if s := hit(l, 0); s != nil {
			out = append(out, write{pos, "store through " + types.ExprString(l), s, l})
		}
	}
	// argWrite: the callee (or builtin) writes the memory arg refers to
	argWrite := func(arg ast.Expr, pos token.Pos, what string) {
		tv, ok := info.Types[arg]
		if !ok || !(refKind(tv.Type) || isAddr(arg)) {
			return
		}
		if s := hit(arg, 1); s != nil {
			out = append(out, write{pos, what, s, nil})
		}
	}
	// recvWrite: a method with a pointer receiver is applied to e
	recvWrite := func(e ast.Expr, pos token.Pos, what string, ptrMethod bool) {
		// a pointer method applied to an addressable value writes that value's own cells; applied to a
		// pointer, or a value method writing through its receiver, it writes one dereference down
		extra := 1
		if ptrMethod {
			extra = 0
			if tv, ok := info.Types[e]; ok && tv.Type != nil {
				if _, isPtr := tv.Type.Underlying().(*types.Pointer); isPtr {
					extra = 1
				}
			}
		}
		root, _ := base(info, e)
		if root != nil && isPkgVar(root) && isSource(root) {
			out = append(out, write{pos, what, root, nil})
			return
		}
		if s := hit(e, extra); s != nil {
			out = append(out, write{pos, what, s, nil})
		}
	}
	ast.Inspect(u.body, func(n ast.Node) bool {
		switch s := n.(type) {
		case *ast.AssignStmt:
			for _, l := range s.Lhs {
				lhsWrite(l, s.Pos())
			}
		case *ast.IncDecStmt:
			lhsWrite(s.X, s.Pos())
		case *ast.RangeStmt:
			if s.Tok == token.ASSIGN {
				if s.Key != nil {
					lhsWrite(s.Key, s.Pos())
				}
				if s.Value != nil {
					lhsWrite(s.Value, s.Pos())
				}
			}
		case *ast.CallExpr:
			if core.IsConversion(info, s) {
				return true
			}
			switch {
			case core.IsBuiltin(info, s, "append") && len(s.Args) > 0:
				if se, ok := ast.Unparen(s.Args[0]).(*ast.SliceExpr); ok && se.Slice3 {
					return true
				}
				argWrite(s.Args[0], s.Pos(), "append may write into the spare capacity of "+types.ExprString(s.Args[0]))
				return true
			case core.IsBuiltin(info, s, "copy") && len(s.Args) > 0:
				argWrite(s.Args[0], s.Pos(), "copy into "+types.ExprString(s.Args[0]))
				return true
			case (core.IsBuiltin(info, s, "delete") || core.IsBuiltin(info, s, "clear")) && len(s.Args) > 0:
				argWrite(s.Args[0], s.Pos(), "delete/clear of "+types.ExprString(s.Args[0]))
				return true
			}
			fn := core.Callee(info, s)
			if fn == nil {
				return true
			}
			id := core.FuncID(fn)
			sig, _ := fn.Type().(*types.Signature)
			var recvExpr ast.Expr
			if se, ok := ast.Unparen(s.Fun).(*ast.SelectorExpr); ok && info.Selections[se] != nil {
				recvExpr = se.X
			}
			if isRepo(fn.Pkg()) {
				w := a.written[fn]
				off := 0
				if sig != nil && sig.Recv() != nil {
					off = 1
					if why, ok := w[0]; ok && recvExpr != nil {
						_, isPtr := sig.Recv().Type().(*types.Pointer)
						recvWrite(recvExpr, s.Pos(), "call of "+id+" ("+why+")", isPtr)
					}
				}
				for i, arg := range s.Args {
					k := i + off
					if sig != nil && sig.Variadic() && i >= sig.Params().Len()-1 {
						k = sig.Params().Len() - 1 + off
					}
					if why, ok := w[k]; ok {
						argWrite(arg, s.Pos(), "call of "+id+" ("+why+")")
					}
				}
				return true
			}
			// foreign callee
			for _, k := range externalMutator(id) {
				if k < len(s.Args) {
					argWrite(s.Args[k], s.Pos(), "library call "+id+" writes its argument")
				}
			}
			if sig != nil && sig.Recv() != nil && recvExpr != nil {
				if _, isPtr := sig.Recv().Type().(*types.Pointer); isPtr {
					recvWrite(recvExpr, s.Pos(), "pointer-receiver method "+id+" applied to "+types.ExprString(recvExpr), true)
				}
			}
		}
		return true
	})
	return out
}

func isAddr(e ast.Expr) bool {
	u, ok := ast.Unparen(e).(*ast.UnaryExpr)
	return ok && u.Op == token.AND
}

func isQualified(info *types.Info, e ast.Expr) bool {
	se, ok := ast.Unparen(e).(*ast.SelectorExpr)
	return ok && info.Selections[se] == nil
}

// solve computes, for every repository function, the parameters it may write through.
func (a *analysis) solve() int {
	a.written = map[*types.Func]map[int]string{}
	rounds := 0
	for changed := true; changed && rounds < 30; {
		changed = false
		rounds++
		for _, u := range a.units {
			if u.fn == nil {
				continue
			}
			idx := map[types.Object]int{}
			for i, p := range u.params {
				if p != nil {
					idx[p] = i
				}
			}
			ws := a.writes(u, func(o types.Object) bool { _, ok := idx[o]; return ok }, false)
			for _, w := range ws {
				i := idx[w.src]
				if a.written[u.fn] == nil {
					a.written[u.fn] = map[int]string{}
				}
				if _, ok := a.written[u.fn][i]; !ok {
					a.written[u.fn][i] = fmt.Sprintf("parameter %s: %s at %s", w.src.Name(), w.what, a.p.Pos(w.pos))
					changed = true
				}
			}
		}
	}
	return rounds
}

// reviewed exceptions: unit -> reason (one named symbol each).
var reviewed = map[string]string{
	"gts/seqio.RegisterQuotedQualifier":  "the documented qualifier-type registry (C01 anchor state): an explicit registration API, written only by its own call",
	"gts/seqio.RegisterLiteralQualifier": "the documented qualifier-type registry (C01 anchor state): an explicit registration API, written only by its own call",
	"gts/seqio.RegisterToggleQualifier":  "the documented qualifier-type registry (C01 anchor state): an explicit registration API, written only by its own call",
}

// Stateless decides rule STATELESS for gts and gts/seqio.
func Stateless(p *core.Prog, r *core.Report) {
	r.Rule("STATELESS", "after package initialisation no function, method or closure of gts and gts/seqio stores into package-level memory: it rebinds no package variable, stores into no element/field/target of one (directly or through a local alias), appends/copies into none, applies no mutating method or library mutator to one, and passes none to a repository function that writes the corresponding parameter (parameter summaries to a fixpoint). The operations are specified as functions of their arguments; a memo table, a scratch buffer kept between calls, or a shared table patched in place makes a result depend on earlier calls. Package initialisers (func init, initialiser expressions) are exempt; closures created by them are not", 150)
	a := &analysis{p: p}
	a.collect(core.PkgGts, core.PkgSeqio)
	rounds := a.solve()
	r.Extra["stateless_rounds"] = rounds
	nGlobals := 0
	for _, pkg := range []string{core.PkgGts, core.PkgSeqio} {
		sc := p.Pkgs[pkg].Types.Scope()
		for _, n := range sc.Names() {
			if isPkgVar(sc.Lookup(n)) {
				nGlobals++
			}
		}
	}
	r.Extra["package_variables"] = nGlobals
	for _, u := range a.units {
		key := core.Short(u.pkg) + "." + u.name
		if u.isInit {
			r.Note("STATELESS", key, p.Pos(u.pos), "package initialiser: exempt")
			continue
		}
		r.Fn(key)
		ws := a.writes(u, func(o types.Object) bool { return isPkgVar(o) && isRepo(o.Pkg()) }, true)
		if len(ws) == 0 {
			r.Ok("STATELESS", key, p.Pos(u.pos), "stores into no package-level memory")
			continue
		}
		sort.Slice(ws, func(i, j int) bool { return ws[i].pos < ws[j].pos })
		if why, ok := reviewed[key]; ok {
			r.Ok("STATELESS", key, p.Pos(u.pos), "reviewed exception: "+why)
			continue
		}
		seen := map[string]bool{}
		for _, w := range ws {
			k := key + "|" + w.src.Name()
			if seen[k] {
				continue
			}
			seen[k] = true
			r.Bad("STATELESS", k, p.Pos(w.pos), fmt.Sprintf("%s writes package-level memory (variable %s): %s; a later call can observe an earlier one", key, w.src.Name(), w.what))
		}
	}
}

// ShallowCache decides SHALLOW-CACHE on (*seqio.Origin).Bytes, the one reviewed
// mutator among the accessors (it replaces the formatted block by the decoded
// residues the first time it is asked): the method may rebind the fields of
// its receiver, but it may not store into the memory those fields reference.
// The formatted block is shared - with the parser's buffer (and so with the
// caller's bytes under pars.FromBytes) and with every value copy of the
// Origin - so decoding "in place" corrupts what the other holders read.
func ShallowCache(p *core.Prog, r *core.Report) {
	r.Rule("SHALLOW-CACHE", "(*seqio.Origin).Bytes writes through its receiver only by assigning whole fields (`o.Buffer = q`, `o.Parsed = true`); it never stores, copies or appends into memory reachable from the receiver (the old block's backing array, which the parser's buffer and value copies of the Origin share)", 1)
	a := &analysis{p: p}
	a.collect(core.PkgGts, core.PkgSeqio)
	a.solve()
	var u *unit
	for _, x := range a.units {
		if x.pkg == core.PkgSeqio && x.name == "Origin.Bytes" {
			u = x
		}
	}
	key := "seqio.Origin.Bytes"
	if u == nil || len(u.params) == 0 || u.params[0] == nil {
		r.Und("SHALLOW-CACHE", key+"|anchor", "-", "anchor-unresolved")
		return
	}
	r.Fn(key)
	recv := u.params[0]
	info := p.Info(u.pkg)
	ws := a.writes(u, func(o types.Object) bool { return o == recv }, false)
	bad := false
	for _, w := range ws {
		if w.lhs != nil {
			if se, ok := ast.Unparen(w.lhs).(*ast.SelectorExpr); ok && info.Selections[se] != nil {
				if id, ok := ast.Unparen(se.X).(*ast.Ident); ok && info.Uses[id] == recv {
					continue // whole-field assignment
				}
			}
		}
		bad = true
		r.Bad("SHALLOW-CACHE", key, p.Pos(w.pos), "Origin.Bytes stores into memory the receiver merely references ("+w.what+"): the formatted block is shared with the parser's buffer and with value copies of the Origin, which now read a half-decoded block")
		break
	}
	if !bad {
		r.Ok("SHALLOW-CACHE", key, p.Pos(u.pos), fmt.Sprintf("%d store(s) through the receiver, all whole-field assignments", len(ws)))
	}
}

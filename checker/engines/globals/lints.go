package globals

import (
	"fmt"
	"go/ast"
	"go/token"
	"go/types"

	"gtsverif/core"
)

// Lints decides two property-independent rules over every function of gts and
// gts/seqio. Both are about operations that "yield a result" for every input:
// each names a construct that panics for some inputs only.
//
// BYTE-INDEX: a lookup table indexed by a byte has 256 entries. (A table one
// entry short works for every byte but 0xFF.) Decided from the types alone.
//
// UNCOMPARABLE: `==`/`!=` between two values of an interface type that has an
// implementation which is not comparable (a slice type such as Joined, Ordered,
// Regions) panics at run time when both operands hold that implementation.
func Lints(p *core.Prog, r *core.Report) {
	r.Rule("BYTE-INDEX", "an index expression whose index has type byte/uint8 addresses an array of at least 256 elements (for a slice or string nothing bounds the index: reported); decided from go/types", 0)
	r.Rule("UNCOMPARABLE", "no `==`/`!=` compares two interface values whose interface type has a non-comparable implementation in the repository (Location: Joined, Ordered; Region: Regions; Sequence: any struct holding slices): the comparison panics when both sides hold it", 0)
	nFns := 0
	// implementers
	var named []*types.Named
	for path, pk := range p.Pkgs {
		if !isRepo(pk.Types) {
			continue
		}
		_ = path
		sc := pk.Types.Scope()
		for _, n := range sc.Names() {
			if tn, ok := sc.Lookup(n).(*types.TypeName); ok {
				if nt, ok := tn.Type().(*types.Named); ok {
					named = append(named, nt)
				}
			}
		}
	}
	badImpl := func(it *types.Interface) string {
		if it.NumMethods() == 0 {
			return "" // interface{}: anything; not flagged (too coarse)
		}
		for _, nt := range named {
			if _, isI := nt.Underlying().(*types.Interface); isI {
				continue
			}
			for _, t := range []types.Type{nt, types.NewPointer(nt)} {
				if types.Implements(t, it) && !types.Comparable(t) {
					return nt.Obj().Name()
				}
			}
		}
		return ""
	}
	for _, pkg := range []string{core.PkgGts, core.PkgSeqio} {
		info := p.Info(pkg)
		for _, fd := range p.FuncDecls(pkg) {
			if fd.Body == nil {
				continue
			}
			nFns++
			name := core.Short(pkg) + "." + core.DeclName(fd)
			kb, ku := 0, 0
			ast.Inspect(fd.Body, func(n ast.Node) bool {
				switch x := n.(type) {
				case *ast.IndexExpr:
					tv, ok := info.Types[x.Index]
					if !ok || tv.Type == nil {
						return true
					}
					b, isB := tv.Type.Underlying().(*types.Basic)
					if !isB || b.Kind() != types.Uint8 || tv.Value != nil {
						return true
					}
					bt, ok := info.Types[x.X]
					if !ok || bt.Type == nil {
						return true
					}
					under := bt.Type.Underlying()
					if pt, isP := under.(*types.Pointer); isP {
						under = pt.Elem().Underlying()
					}
					kb++
					key := fmt.Sprintf("%s|byte-index#%d", name, kb)
					switch u := under.(type) {
					case *types.Array:
						if u.Len() >= 256 {
							r.Ok("BYTE-INDEX", key, p.Pos(x.Pos()), "array of "+fmt.Sprint(u.Len())+" elements")
						} else {
							r.Bad("BYTE-INDEX", key, p.Pos(x.Pos()), fmt.Sprintf("`%s` indexes an array of %d elements with a byte: a byte value of %d or more is out of range and the lookup panics (a table of math.MaxUint8 entries is one short: 0xFF)", types.ExprString(x), u.Len(), u.Len()))
						}
					case *types.Map:
						kb--
					default:
						r.Bad("BYTE-INDEX", key, p.Pos(x.Pos()), fmt.Sprintf("`%s` indexes a %s with a byte and nothing in its type bounds the index", types.ExprString(x), under.String()))
					}
				case *ast.BinaryExpr:
					if x.Op != token.EQL && x.Op != token.NEQ {
						return true
					}
					tx, ok1 := info.Types[x.X]
					ty, ok2 := info.Types[x.Y]
					if !ok1 || !ok2 || tx.Type == nil || ty.Type == nil || tx.IsNil() || ty.IsNil() {
						return true
					}
					ix, okx := tx.Type.Underlying().(*types.Interface)
					iy, oky := ty.Type.Underlying().(*types.Interface)
					if !okx || !oky {
						return true
					}
					if core.NamedOf(tx.Type) == "error" || core.NamedOf(ty.Type) == "error" {
						return true
					}
					impl := badImpl(ix)
					if impl == "" {
						impl = badImpl(iy)
					}
					if impl == "" {
						return true
					}
					ku++
					r.Bad("UNCOMPARABLE", fmt.Sprintf("%s|compare#%d", name, ku), p.Pos(x.Pos()), fmt.Sprintf("`%s` compares two interface values; when both hold a %s (a slice type) the comparison panics with `comparing uncomparable type`", types.ExprString(x), impl))
				}
				return true
			})
		}
	}
	r.Extra["lint_functions"] = nFns
	r.Ok("BYTE-INDEX", "gts+seqio|scan", "-", fmt.Sprintf("%d functions scanned", nFns))
	r.Ok("UNCOMPARABLE", "gts+seqio|scan", "-", fmt.Sprintf("%d functions scanned", nFns))
}

package globals

import (
	"fmt"
	"go/ast"
	"go/token"
	"go/types"

	"gtsverif/core"
)

// LoopCapture decides LOOP-CAPTURE in gts and gts/seqio: a function literal
// that is created inside a loop and outlives the iteration (it is assigned to
// a variable, returned, appended or stored - not called on the spot) does not
// capture a variable that is declared outside the loop and assigned inside
// it. Such a variable is one cell shared by the literals of all iterations:
// when they finally run, every one of them sees the value of the last
// iteration (a selector built clause by clause then tests only its last
// clause). Variables declared inside the loop body, and the loop's own
// iteration variables, are fresh per iteration and fine.
func LoopCapture(p *core.Prog, r *core.Report) {
	r.Rule("LOOP-CAPTURE", "no function literal created inside a loop and kept beyond the iteration captures a variable that is declared outside the loop and assigned inside it (all the literals would share the last value); decided from scopes and assignments in go/ast + go/types", 0)
	nLits := 0
	for _, pkg := range []string{core.PkgGts, core.PkgSeqio} {
		info := p.Info(pkg)
		for _, fd := range p.FuncDecls(pkg) {
			if fd.Body == nil {
				continue
			}
			name := core.Short(pkg) + "." + core.DeclName(fd)
			par := core.Parents(fd.Body)
			k := 0
			ast.Inspect(fd.Body, func(n ast.Node) bool {
				fl, ok := n.(*ast.FuncLit)
				if !ok {
					return true
				}
				// innermost enclosing loop within the same function (not crossing another literal)
				var loop ast.Stmt
				var body *ast.BlockStmt
				for m := par[ast.Node(fl)]; m != nil && loop == nil; m = par[m] {
					switch x := m.(type) {
					case *ast.ForStmt:
						loop, body = x, x.Body
					case *ast.RangeStmt:
						loop, body = x, x.Body
					case *ast.FuncLit:
						m = nil
					}
					if m == nil {
						break
					}
				}
				if loop == nil {
					return true
				}
				nLits++
				// called on the spot, or handed straight to a call (sort.Slice, Map ...) that runs it now?
				switch pn := par[ast.Node(fl)].(type) {
				case *ast.CallExpr:
					if ast.Unparen(pn.Fun) == ast.Expr(fl) {
						return true
					}
				}
				// variables the literal mentions
				seen := map[types.Object]bool{}
				ast.Inspect(fl.Body, func(m ast.Node) bool {
					id, ok := m.(*ast.Ident)
					if !ok {
						return true
					}
					v, ok := info.Uses[id].(*types.Var)
					if !ok || v.IsField() || seen[v] || v.Pkg() == nil || v.Parent() == v.Pkg().Scope() {
						return true
					}
					seen[v] = true
					// declared inside the loop (body or header)? then fresh per iteration
					if loop.Pos() <= v.Pos() && v.Pos() < loop.End() {
						return true
					}
					// declared inside the literal itself
					if fl.Pos() <= v.Pos() && v.Pos() < fl.End() {
						return true
					}
					// assigned inside the loop (outside the literal)?
					assigned := token.NoPos
					ast.Inspect(body, func(a ast.Node) bool {
						if a == ast.Node(fl) {
							return false
						}
						switch y := a.(type) {
						case *ast.AssignStmt:
							for _, l := range y.Lhs {
								if lid, ok := ast.Unparen(l).(*ast.Ident); ok && info.Uses[lid] == types.Object(v) {
									assigned = y.Pos()
								}
							}
						case *ast.IncDecStmt:
							if lid, ok := ast.Unparen(y.X).(*ast.Ident); ok && info.Uses[lid] == types.Object(v) {
								assigned = y.Pos()
							}
						}
						return true
					})
					// (an `if v, err = f(); ...` header inside the loop body counts too: it is inside body)
					if assigned == token.NoPos {
						return true
					}
					// the variable the literal itself is assigned to (`filter = func.. { filter(..) }` is the
					// accumulator idiom: the literal captures the previous value only through a per-iteration copy)
					if as, ok := par[ast.Node(fl)].(*ast.AssignStmt); ok {
						for _, l := range as.Lhs {
							if lid, ok := ast.Unparen(l).(*ast.Ident); ok && info.Uses[lid] == types.Object(v) {
								k++
								r.Bad("LOOP-CAPTURE", fmt.Sprintf("%s|literal#%d", name, k), p.Pos(fl.Pos()), fmt.Sprintf("the literal assigned to `%s` calls `%s` itself: it captures the variable, not its previous value, and recurses into itself", v.Name(), v.Name()))
								return true
							}
						}
					}
					k++
					r.Bad("LOOP-CAPTURE", fmt.Sprintf("%s|literal#%d", name, k), p.Pos(fl.Pos()), fmt.Sprintf("the function literal created in this loop captures `%s`, which is declared outside the loop (%s) and assigned inside it (%s): the literals of all iterations share that one variable and all see its last value when they run - of a selector with several clauses only the last clause is tested", v.Name(), p.Pos(v.Pos()), p.Pos(assigned)))
					return true
				})
				return true
			})
		}
	}
	r.Extra["lint_loop_literals"] = nLits
	r.Ok("LOOP-CAPTURE", "gts+seqio|scan", "-", fmt.Sprintf("%d function literals inside loops examined", nLits))
}

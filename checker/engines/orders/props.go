package orders

import (
	"fmt"
	"go/ast"
	"go/types"

	"gtsverif/core"
)

type span struct{ lo, hi int } // ranks, normalised lo <= hi

func norm(r []int, a, b int) span {
	if r[a] <= r[b] {
		return span{r[a], r[b]}
	}
	return span{r[b], r[a]}
}

func boolRes(vs []value) (bool, bool) {
	if len(vs) == 1 && vs[0].k == kBool {
		return vs[0].b, true
	}
	return false, false
}

func intRes(vs []value) (int64, bool) {
	if len(vs) == 1 && vs[0].k == kConc {
		return vs[0].n, true
	}
	return 0, false
}

func showRank(names []string, rank []int) string {
	// render the preorder as a chain: a < b = c < d
	type pr struct {
		n string
		r int
	}
	maxr := 0
	for _, r := range rank {
		if r > maxr {
			maxr = r
		}
	}
	s := ""
	for r := 0; r <= maxr; r++ {
		if r > 0 {
			s += " < "
		}
		first := true
		for i, n := range names {
			if rank[i] == r {
				if !first {
					s += "="
				}
				s += n
				first = false
			}
		}
	}
	return s
}

// Intervals decides the E7 interval oracle for rangeOverlap and rangeWithin (C03).
func Intervals(p *core.Prog, r *core.Report) {
	r.Rule("E7-INTERVAL", "rangeOverlap(s,e,l,u) and rangeWithin(s,e,l,u) equal the interval definitions max(lo)<min(hi) and lo2<=lo1 && hi1<=hi2 on orientation-normalised, non-empty intervals, for every ordering of their four inputs (75 total preorders), and are insensitive to the orientation of either argument pair", 2)
	info := p.Info(core.PkgGts)
	names := []string{"s", "e", "l", "u"}
	for _, w := range []struct {
		name   string
		oracle func(a, b span) bool
	}{
		{"rangeOverlap", func(a, b span) bool { return max(a.lo, b.lo) < min(a.hi, b.hi) }},
		{"rangeWithin", func(a, b span) bool { return b.lo <= a.lo && a.hi <= b.hi }},
	} {
		fd := p.FuncDecl(core.PkgGts, w.name)
		key := "gts." + w.name
		if fd == nil || fd.Body == nil {
			r.Und("E7-INTERVAL", key+"|anchor", "-", "anchor-unresolved")
			continue
		}
		r.Fn(key)
		bad, und := "", ""
		total, checked := 0, 0
		call := func(rank []int, a, b, c, d int) (bool, bool) {
			vs, err := evalFunc(p, info, fd, rank, nil, []value{atomV(a), atomV(b), atomV(c), atomV(d)})
			if err != nil {
				und = err.Error()
				return false, false
			}
			return boolRes(vs)
		}
		total = preorders(4, func(rank []int) {
			if bad != "" || und != "" {
				return
			}
			if rank[0] == rank[1] || rank[2] == rank[3] {
				return // zero-length sites: the property does not fix their edge behaviour
			}
			checked++
			got, ok := call(rank, 0, 1, 2, 3)
			if !ok {
				if und == "" {
					und = "result is not a boolean"
				}
				return
			}
			want := w.oracle(norm(rank, 0, 1), norm(rank, 2, 3))
			if got != want {
				bad = fmt.Sprintf("for the ordering %s the function returns %v, the interval definition gives %v", showRank(names, rank), got, want)
				return
			}
			for _, alt := range [][4]int{{1, 0, 2, 3}, {0, 1, 3, 2}, {1, 0, 3, 2}} {
				g2, ok := call(rank, alt[0], alt[1], alt[2], alt[3])
				if ok && g2 != got {
					bad = fmt.Sprintf("for the ordering %s the result changes when an argument pair is given in the other orientation", showRank(names, rank))
				}
			}
		})
		r.Extra[w.name+"_preorders"] = total
		switch {
		case und != "":
			r.Und("E7-INTERVAL", key, p.Pos(fd.Pos()), und)
		case bad != "":
			r.Bad("E7-INTERVAL", key, p.Pos(fd.Pos()), bad)
		default:
			r.Ok("E7-INTERVAL", key, p.Pos(fd.Pos()), fmt.Sprintf("agrees with the interval definition on all %d orderings with non-empty intervals (of %d preorders of 4 inputs)", checked, total))
		}
	}
}

// Compare3 decides that rangeCompare is a consistent three-way comparator (C19).
func Compare3(p *core.Prog, r *core.Report) {
	r.Rule("E7-CMP", "rangeCompare is a consistent three-way comparator on orientation-normalised spans: cmp(a,a)=0, cmp(a,b)=-cmp(b,a), cmp(a,b)<=0 && cmp(b,c)<=0 => cmp(a,c)<=0, cmp(a,b)=0 exactly when the spans are equal, and it ignores the orientation of either span; for all 4683 orderings of six endpoints", 1)
	info := p.Info(core.PkgGts)
	fd := p.FuncDecl(core.PkgGts, "rangeCompare")
	key := "gts.rangeCompare"
	if fd == nil || fd.Body == nil {
		r.Und("E7-CMP", key+"|anchor", "-", "anchor-unresolved")
		return
	}
	r.Fn(key)
	names := []string{"a0", "a1", "b0", "b1", "c0", "c1"}
	bad, und := "", ""
	cmp := func(rank []int, a, b, c, d int) int64 {
		vs, err := evalFunc(p, info, fd, rank, nil, []value{atomV(a), atomV(b), atomV(c), atomV(d)})
		if err != nil {
			und = err.Error()
			return 0
		}
		n, ok := intRes(vs)
		if !ok || n < -1 || n > 1 {
			und = "result is not one of -1, 0, 1"
		}
		return n
	}
	total := preorders(6, func(rank []int) {
		if bad != "" || und != "" {
			return
		}
		sp := [3][2]int{{0, 1}, {2, 3}, {4, 5}}
		var m [3][3]int64
		for i := 0; i < 3; i++ {
			for j := 0; j < 3; j++ {
				m[i][j] = cmp(rank, sp[i][0], sp[i][1], sp[j][0], sp[j][1])
			}
		}
		if und != "" {
			return
		}
		o := showRank(names, rank)
		for i := 0; i < 3; i++ {
			if m[i][i] != 0 {
				bad = "cmp(x,x) != 0 for " + o
			}
			for j := 0; j < 3; j++ {
				if m[i][j] != -m[j][i] {
					bad = "cmp(x,y) != -cmp(y,x) for " + o
				}
				eq := norm(rank, sp[i][0], sp[i][1]) == norm(rank, sp[j][0], sp[j][1])
				if (m[i][j] == 0) != eq {
					bad = "cmp(x,y) == 0 does not coincide with equal spans for " + o
				}
				for k := 0; k < 3; k++ {
					if m[i][j] <= 0 && m[j][k] <= 0 && m[i][k] > 0 {
						bad = "not transitive for " + o
					}
				}
			}
		}
		// orientation
		if cmp(rank, 1, 0, 2, 3) != m[0][1] || cmp(rank, 0, 1, 3, 2) != m[0][1] {
			bad = "result depends on the orientation of a span for " + o
		}
	})
	r.Extra["rangeCompare_preorders"] = total
	switch {
	case und != "":
		r.Und("E7-CMP", key, p.Pos(fd.Pos()), und)
	case bad != "":
		r.Bad("E7-CMP", key, p.Pos(fd.Pos()), bad+": the location order is not a consistent order, so sorted insertion and Repair's sort are unreliable")
	default:
		r.Ok("E7-CMP", key, p.Pos(fd.Pos()), fmt.Sprintf("consistent three-way comparator on all %d orderings of six endpoints", total))
	}
}

// SegmentOrder decides that BySegment.Less is a strict weak order and that
// Min/Max/Compare are what their names say (C09).
func SegmentOrder(p *core.Prog, r *core.Report) {
	r.Rule("E7-SWO", "BySegment.Less is a strict weak order on orientation-normalised segments (irreflexive, asymmetric, transitive, transitive incomparability), orders by (low end, high end), ignores segment orientation and does not modify the slice; for all 4683 orderings of the six endpoints of three segments", 1)
	r.Rule("E7-UTIL", "Min, Max and Compare return the smaller input, the larger input and the sign of the comparison for all 3 orderings of two inputs", 3)
	info := p.Info(core.PkgGts)
	fd := p.FuncDecl(core.PkgGts, "BySegment.Less")
	key := "gts.BySegment.Less"
	if fd == nil || fd.Body == nil {
		r.Und("E7-SWO", key+"|anchor", "-", "anchor-unresolved")
	} else {
		r.Fn(key)
		names := []string{"a0", "a1", "b0", "b1", "c0", "c1"}
		bad, und := "", ""
		mk := func(flip [3]bool) *value {
			l := value{k: kList}
			for i := 0; i < 3; i++ {
				x, y := 2*i, 2*i+1
				if flip[i] {
					x, y = y, x
				}
				l.list = append(l.list, arrV(atomV(x), atomV(y)))
			}
			return &l
		}
		less := func(rank []int, recv *value, i, j int) bool {
			vs, err := evalFunc(p, info, fd, rank, recv, []value{concV(int64(i)), concV(int64(j))})
			if err != nil {
				und = err.Error()
				return false
			}
			b, ok := boolRes(vs)
			if !ok {
				und = "result is not a boolean"
			}
			return b
		}
		total := preorders(6, func(rank []int) {
			if bad != "" || und != "" {
				return
			}
			recv := mk([3]bool{})
			var m [3][3]bool
			for i := 0; i < 3; i++ {
				for j := 0; j < 3; j++ {
					m[i][j] = less(rank, recv, i, j)
				}
			}
			if und != "" {
				return
			}
			// the receiver must be unchanged (Less works on copies)
			for i := 0; i < 3; i++ {
				if recv.list[i].arr[0].atom != 2*i || recv.list[i].arr[1].atom != 2*i+1 {
					bad = "Less modifies the slice it compares"
				}
			}
			o := showRank(names, rank)
			sp := [3]span{norm(rank, 0, 1), norm(rank, 2, 3), norm(rank, 4, 5)}
			for i := 0; i < 3; i++ {
				if m[i][i] {
					bad = "Less(x,x) is true for " + o
				}
				for j := 0; j < 3; j++ {
					if m[i][j] && m[j][i] {
						bad = "Less(x,y) and Less(y,x) both hold for " + o
					}
					want := sp[i].lo < sp[j].lo || (sp[i].lo == sp[j].lo && sp[i].hi < sp[j].hi)
					if m[i][j] != want {
						bad = "Less does not order by (low end, high end) for " + o
					}
					for k := 0; k < 3; k++ {
						if m[i][j] && m[j][k] && !m[i][k] {
							bad = "Less is not transitive for " + o
						}
						inc := func(a, b int) bool { return !m[a][b] && !m[b][a] }
						if inc(i, j) && inc(j, k) && !inc(i, k) {
							bad = "incomparability is not transitive for " + o
						}
					}
				}
			}
			flipped := mk([3]bool{true, false, true})
			for i := 0; i < 3; i++ {
				for j := 0; j < 3; j++ {
					if less(rank, flipped, i, j) != m[i][j] {
						bad = "Less depends on segment orientation for " + o
					}
				}
			}
		})
		r.Extra["BySegment.Less_preorders"] = total
		switch {
		case und != "":
			r.Und("E7-SWO", key, p.Pos(fd.Pos()), und)
		case bad != "":
			r.Bad("E7-SWO", key, p.Pos(fd.Pos()), bad+": sort.Sort may leave the segments unsorted, and the linear merge in Minimize then misses overlaps")
		default:
			r.Ok("E7-SWO", key, p.Pos(fd.Pos()), fmt.Sprintf("strict weak order by (low, high) on all %d orderings of six endpoints", total))
		}
	}
	// Min / Max / Compare
	for _, name := range []string{"Min", "Max", "Compare"} {
		fd := p.FuncDecl(core.PkgGts, name)
		key := "gts." + name
		if fd == nil || fd.Body == nil {
			r.Und("E7-UTIL", key+"|anchor", "-", "anchor-unresolved")
			continue
		}
		r.Fn(key)
		bad, und := "", ""
		total := preorders(2, func(rank []int) {
			vs, err := evalFunc(p, info, fd, rank, nil, []value{atomV(0), atomV(1)})
			if err != nil {
				und = err.Error()
				return
			}
			switch name {
			case "Min", "Max":
				if len(vs) != 1 || vs[0].k != kAtom {
					und = "result is not one of the inputs"
					return
				}
				want := min(rank[0], rank[1])
				if name == "Max" {
					want = max(rank[0], rank[1])
				}
				if rank[vs[0].atom] != want {
					bad = fmt.Sprintf("%s(i,j) returns the wrong input when %s", name, showRank([]string{"i", "j"}, rank))
				}
			case "Compare":
				n, ok := intRes(vs)
				want := int64(0)
				if rank[0] < rank[1] {
					want = -1
				} else if rank[0] > rank[1] {
					want = 1
				}
				if !ok || n != want {
					bad = fmt.Sprintf("Compare(i,j) returns %d when %s", n, showRank([]string{"i", "j"}, rank))
				}
			}
		})
		_ = total
		switch {
		case und != "":
			r.Und("E7-UTIL", key, p.Pos(fd.Pos()), und)
		case bad != "":
			r.Bad("E7-UTIL", key, p.Pos(fd.Pos()), bad)
		default:
			r.Ok("E7-UTIL", key, p.Pos(fd.Pos()), "correct on all 3 orderings of two inputs")
		}
	}
	_ = ast.Unparen
	_ = types.Typ
}

package orders

import (
	"fmt"

	"gtsverif/core"
)

// RangePred decides E7-RANGE on the two span predicates every location filter
// bottoms out in. Both only compare their four arguments with each other, so
// evaluating them for every weak ordering of four values (75 of them) is
// exhaustive for all integers. With A = the span (s,e) and B = the bounds
// (l,u), each read without orientation (lo <= hi):
//
//	rangeWithin  <=>  lo(B) <= lo(A) and hi(A) <= hi(B)
//	rangeOverlap <=>  not ( hi(A) <= lo(B) or hi(B) <= lo(A) )
//
// i.e. A overlaps B unless one of them ends at or before the start of the
// other. For spans with residues that is "they share a residue"; for a
// zero-width span (a site between two residues) it is "the site lies strictly
// inside the bounds", which is what makes Within imply Overlap for every span
// strictly inside non-empty bounds.
func RangePred(p *core.Prog, r *core.Report) {
	r.Rule("E7-RANGE", "rangeWithin and rangeOverlap agree with containment resp. 'neither ends at or before the start of the other' of the orientation-normalised spans for all 75 weak orderings of their four arguments (exhaustive for all integers: the functions only compare their arguments), in particular a site strictly inside the bounds overlaps them", 2)
	info := p.Info(core.PkgGts)
	names := []string{"s", "e", "l", "u"}
	for _, fn := range []string{"rangeWithin", "rangeOverlap"} {
		fd := p.FuncDecl(core.PkgGts, fn)
		key := "gts." + fn
		if fd == nil || fd.Body == nil {
			r.Und("E7-RANGE", key+"|anchor", "-", "anchor-unresolved")
			continue
		}
		r.Fn(key)
		bad, und := "", ""
		total := preorders(4, func(rank []int) {
			if bad != "" || und != "" {
				return
			}
			vs, err := evalFunc(p, info, fd, rank, nil, []value{atomV(0), atomV(1), atomV(2), atomV(3)})
			if err != nil {
				und = err.Error()
				return
			}
			got, ok := boolRes(vs)
			if !ok {
				und = "the result is not a boolean"
				return
			}
			loA, hiA := rank[0], rank[1]
			if hiA < loA {
				loA, hiA = hiA, loA
			}
			loB, hiB := rank[2], rank[3]
			if hiB < loB {
				loB, hiB = hiB, loB
			}
			want := loB <= loA && hiA <= hiB
			if fn == "rangeOverlap" {
				want = !(hiA <= loB || hiB <= loA)
			}
			if got != want {
				bad = fmt.Sprintf("for the ordering %s the function answers %v, the specification %v", showRank(names, rank), got, want)
			}
		})
		switch {
		case und != "":
			r.Und("E7-RANGE", key, p.Pos(fd.Pos()), "cannot be evaluated over order types: "+und)
		case bad != "":
			r.Bad("E7-RANGE", key, p.Pos(fd.Pos()), bad+": Within/Overlap filters (and Slice, Erase, extract, which select features with them) accept or reject a span they should not - e.g. a site strictly inside the bounds that no longer overlaps them")
		default:
			r.Ok("E7-RANGE", key, p.Pos(fd.Pos()), fmt.Sprintf("agrees with the specification for all %d weak orderings", total))
		}
	}
}

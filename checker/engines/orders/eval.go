// Package orders implements E7: exact decision of comparison-only functions by
// abstract interpretation over the finite domain of orderings of their inputs.
//
// A function in the fragment touches its integer inputs only through
// comparisons, copies and swaps, so its result depends only on the total
// preorder (the "order type") of the inputs. The evaluator runs the function's
// syntax tree once per preorder with the inputs as symbolic atoms ranked by
// that preorder. Any construct outside the fragment (arithmetic on an atom, a
// call that is not a tuple unpacking, a loop) aborts with "outside the
// fragment" and the obligation is reported undecided.
package orders

import (
	"fmt"
	"go/ast"
	"go/constant"
	"go/token"
	"go/types"

	"gtsverif/core"
)

type kind int

const (
	kAtom kind = iota // symbolic input, compared through its rank
	kConc             // concrete integer (literal, result code)
	kBool
	kArr    // [2]int value (copied on assignment)
	kList   // read-only list of kArr (the receiver of a Less method)
	kStruct // a struct value with named fields
	kLen    // a slice known only by its length
)

type value struct {
	k    kind
	atom int // atom id
	n    int64
	b    bool
	arr  [2]*value
	list []value
	flds map[string]*value
}

func atomV(id int) value  { return value{k: kAtom, atom: id} }
func concV(n int64) value { return value{k: kConc, n: n} }
func boolV(b bool) value  { return value{k: kBool, b: b} }
func arrV(a, b value) value {
	return value{k: kArr, arr: [2]*value{&a, &b}}
}

func (v value) copy() value {
	if v.k == kArr {
		a, b := *v.arr[0], *v.arr[1]
		return value{k: kArr, arr: [2]*value{&a, &b}}
	}
	return v
}

type outside struct{ why string }

func (o outside) Error() string { return "outside the comparison-only fragment: " + o.why }

type retSignal struct{ vals []value }

type interp struct {
	info *types.Info
	rank []int // rank of each atom under the current preorder
	env  map[types.Object]*value
	prog *core.Prog
}

func (it *interp) fail(format string, a ...interface{}) {
	panic(outside{fmt.Sprintf(format, a...)})
}

func (it *interp) cmp(op token.Token, x, y value) bool {
	var a, b int64
	switch {
	case x.k == kAtom && y.k == kAtom:
		a, b = int64(it.rank[x.atom]), int64(it.rank[y.atom])
	case x.k == kConc && y.k == kConc:
		a, b = x.n, y.n
	default:
		it.fail("comparison between an input and a concrete number")
	}
	switch op {
	case token.LSS:
		return a < b
	case token.LEQ:
		return a <= b
	case token.GTR:
		return a > b
	case token.GEQ:
		return a >= b
	case token.EQL:
		return a == b
	case token.NEQ:
		return a != b
	}
	it.fail("operator %s", op)
	return false
}

func (it *interp) lookup(id *ast.Ident) *value {
	o := it.info.Uses[id]
	if o == nil {
		o = it.info.Defs[id]
	}
	if v, ok := it.env[o]; ok {
		return v
	}
	return nil
}

// lvalue resolves an assignable expression to the storage it names.
func (it *interp) lvalue(e ast.Expr) *value {
	switch x := ast.Unparen(e).(type) {
	case *ast.Ident:
		if v := it.lookup(x); v != nil {
			return v
		}
		o := it.info.Defs[x]
		if o == nil {
			o = it.info.Uses[x]
		}
		nv := &value{}
		it.env[o] = nv
		return nv
	case *ast.IndexExpr:
		base := it.lvalue(x.X)
		idx := it.eval(x.Index)
		if base.k != kArr || idx.k != kConc || idx.n < 0 || idx.n > 1 {
			it.fail("assignment through a non-array index")
		}
		return base.arr[idx.n]
	}
	it.fail("unsupported assignment target")
	return nil
}

func (it *interp) eval(e ast.Expr) value {
	e = ast.Unparen(e)
	if tv, ok := it.info.Types[e]; ok && tv.Value != nil {
		switch tv.Value.Kind() {
		case constant.Int:
			n, _ := constant.Int64Val(tv.Value)
			return concV(n)
		case constant.Bool:
			return boolV(constant.BoolVal(tv.Value))
		}
	}
	switch x := e.(type) {
	case *ast.Ident:
		if v := it.lookup(x); v != nil {
			return v.copy()
		}
		it.fail("reference to %s, which is not a parameter or local", x.Name)
	case *ast.IndexExpr:
		base := it.eval(x.X)
		idx := it.eval(x.Index)
		if idx.k != kConc {
			it.fail("index by an input value")
		}
		switch base.k {
		case kArr:
			if idx.n < 0 || idx.n > 1 {
				it.fail("array index out of range")
			}
			return *base.arr[idx.n]
		case kList:
			if idx.n < 0 || int(idx.n) >= len(base.list) {
				it.fail("list index out of range")
			}
			return base.list[idx.n].copy()
		}
		it.fail("index of a non-array")
	case *ast.SelectorExpr:
		base := it.eval(x.X)
		if base.k == kStruct {
			if f, ok := base.flds[x.Sel.Name]; ok {
				return f.copy()
			}
		}
		it.fail("selector %s on a value that is not a modelled struct", x.Sel.Name)
	case *ast.UnaryExpr:
		v := it.eval(x.X)
		switch {
		case x.Op == token.NOT && v.k == kBool:
			return boolV(!v.b)
		case x.Op == token.SUB && v.k == kConc:
			return concV(-v.n)
		}
		it.fail("unary %s on an input", x.Op)
	case *ast.BinaryExpr:
		switch x.Op {
		case token.LAND:
			l := it.eval(x.X)
			if l.k != kBool {
				it.fail("&& on non-bool")
			}
			if !l.b {
				return boolV(false)
			}
			return it.eval(x.Y)
		case token.LOR:
			l := it.eval(x.X)
			if l.k != kBool {
				it.fail("|| on non-bool")
			}
			if l.b {
				return boolV(true)
			}
			return it.eval(x.Y)
		case token.LSS, token.LEQ, token.GTR, token.GEQ, token.EQL, token.NEQ:
			l, r := it.eval(x.X), it.eval(x.Y)
			if l.k == kBool && r.k == kBool && (x.Op == token.EQL || x.Op == token.NEQ) {
				return boolV((l.b == r.b) == (x.Op == token.EQL))
			}
			return boolV(it.cmp(x.Op, l, r))
		default:
			l, r := it.eval(x.X), it.eval(x.Y)
			if l.k == kConc && r.k == kConc {
				switch x.Op {
				case token.ADD:
					return concV(l.n + r.n)
				case token.SUB:
					return concV(l.n - r.n)
				case token.MUL:
					return concV(l.n * r.n)
				case token.QUO:
					if r.n == 0 {
						it.fail("division by zero")
					}
					return concV(l.n / r.n)
				case token.REM:
					if r.n == 0 {
						it.fail("division by zero")
					}
					return concV(l.n % r.n)
				}
			}
			it.fail("arithmetic (%s) on an input value", x.Op)
		}
	case *ast.CallExpr:
		vs := it.call(x)
		if len(vs) != 1 {
			it.fail("multi-value call in single-value context")
		}
		return vs[0]
	case *ast.CompositeLit:
		if len(x.Elts) == 2 {
			if at, ok := it.info.Types[x].Type.Underlying().(*types.Array); ok && at.Len() == 2 {
				return arrV(it.eval(x.Elts[0]), it.eval(x.Elts[1]))
			}
		}
		it.fail("composite literal")
	}
	it.fail("expression form %T", e)
	return value{}
}

// call supports only repo helpers that are themselves in the fragment
// (evaluated recursively) -- in practice Unpack, Min, Max, Compare.
func (it *interp) call(c *ast.CallExpr) []value {
	if core.IsConversion(it.info, c) && len(c.Args) == 1 {
		return []value{it.eval(c.Args[0])}
	}
	if core.IsBuiltin(it.info, c, "len") && len(c.Args) == 1 {
		v := it.eval(c.Args[0])
		switch v.k {
		case kLen:
			return []value{concV(v.n)}
		case kList:
			return []value{concV(int64(len(v.list)))}
		}
		it.fail("len of an unmodelled value")
	}
	fn := core.Callee(it.info, c)
	if fn == nil || fn.Pkg() == nil || (fn.Pkg().Path() != core.PkgGts && fn.Pkg().Path() != core.PkgSeqio) {
		it.fail("call of %v", types.ExprString(c.Fun))
	}
	sig := fn.Type().(*types.Signature)
	if sig.Recv() != nil {
		it.fail("method call %s", fn.Name())
	}
	fd := it.prog.FuncDecl(fn.Pkg().Path(), fn.Name())
	if fd == nil || fd.Body == nil {
		it.fail("callee %s has no body", fn.Name())
	}
	var args []value
	for _, a := range c.Args {
		args = append(args, it.eval(a))
	}
	sub := &interp{info: it.prog.Info(fn.Pkg().Path()), rank: it.rank, env: map[types.Object]*value{}, prog: it.prog}
	return sub.run(fd, nil, args)
}

// run evaluates fd with the given receiver/arguments and returns its results.
func (it *interp) run(fd *ast.FuncDecl, recv *value, args []value) (out []value) {
	if fd.Recv != nil && len(fd.Recv.List) > 0 && len(fd.Recv.List[0].Names) > 0 && recv != nil {
		it.env[it.info.Defs[fd.Recv.List[0].Names[0]]] = recv
	}
	i := 0
	for _, f := range fd.Type.Params.List {
		for _, n := range f.Names {
			if i >= len(args) {
				it.fail("too few arguments")
			}
			v := args[i].copy()
			it.env[it.info.Defs[n]] = &v
			i++
		}
	}
	defer func() {
		if e := recover(); e != nil {
			if rs, ok := e.(retSignal); ok {
				out = rs.vals
				return
			}
			panic(e)
		}
	}()
	it.block(fd.Body.List)
	it.fail("function falls off its end")
	return nil
}

func (it *interp) block(list []ast.Stmt) {
	for _, s := range list {
		it.stmt(s)
	}
}

func (it *interp) cond(e ast.Expr) bool {
	v := it.eval(e)
	if v.k != kBool {
		it.fail("non-boolean condition")
	}
	return v.b
}

func (it *interp) stmt(s ast.Stmt) {
	switch x := s.(type) {
	case *ast.BlockStmt:
		it.block(x.List)
	case *ast.ReturnStmt:
		var vals []value
		for _, r := range x.Results {
			if c, ok := ast.Unparen(r).(*ast.CallExpr); ok && len(x.Results) == 1 {
				vals = append(vals, it.call(c)...)
				continue
			}
			vals = append(vals, it.eval(r))
		}
		panic(retSignal{vals})
	case *ast.IfStmt:
		if x.Init != nil {
			it.stmt(x.Init)
		}
		if it.cond(x.Cond) {
			it.block(x.Body.List)
		} else if x.Else != nil {
			it.stmt(x.Else)
		}
	case *ast.SwitchStmt:
		if x.Init != nil {
			it.stmt(x.Init)
		}
		if x.Tag != nil {
			it.fail("tagged switch")
		}
		var deflt *ast.CaseClause
		for _, cc := range x.Body.List {
			cl := cc.(*ast.CaseClause)
			if cl.List == nil {
				deflt = cl
				continue
			}
			for _, e := range cl.List {
				if it.cond(e) {
					it.block(cl.Body)
					return
				}
			}
		}
		if deflt != nil {
			it.block(deflt.Body)
		}
	case *ast.AssignStmt:
		if x.Tok != token.ASSIGN && x.Tok != token.DEFINE {
			// compound assignment on concrete numbers only
			ops := map[token.Token]token.Token{token.ADD_ASSIGN: token.ADD, token.SUB_ASSIGN: token.SUB, token.MUL_ASSIGN: token.MUL, token.QUO_ASSIGN: token.QUO, token.REM_ASSIGN: token.REM}
			op, ok := ops[x.Tok]
			if !ok || len(x.Lhs) != 1 || len(x.Rhs) != 1 {
				it.fail("compound assignment %s", x.Tok)
			}
			t := it.lvalue(x.Lhs[0])
			rv := it.eval(x.Rhs[0])
			if t.k != kConc || rv.k != kConc {
				it.fail("arithmetic (%s) on an input value", x.Tok)
			}
			switch op {
			case token.ADD:
				t.n += rv.n
			case token.SUB:
				t.n -= rv.n
			case token.MUL:
				t.n *= rv.n
			case token.QUO:
				if rv.n == 0 {
					it.fail("division by zero")
				}
				t.n /= rv.n
			case token.REM:
				if rv.n == 0 {
					it.fail("division by zero")
				}
				t.n %= rv.n
			}
			return
		}
		var vals []value
		if len(x.Rhs) == 1 && len(x.Lhs) > 1 {
			c, ok := ast.Unparen(x.Rhs[0]).(*ast.CallExpr)
			if !ok {
				it.fail("tuple assignment from a non-call")
			}
			vals = it.call(c)
		} else {
			for _, r := range x.Rhs {
				vals = append(vals, it.eval(r).copy())
			}
		}
		if len(vals) != len(x.Lhs) {
			it.fail("assignment arity")
		}
		// evaluate all right-hand sides first (swap semantics), then store
		var targets []*value
		for _, l := range x.Lhs {
			if id, ok := l.(*ast.Ident); ok && id.Name == "_" {
				targets = append(targets, nil)
				continue
			}
			if x.Tok == token.DEFINE {
				if id, ok := l.(*ast.Ident); ok && it.info.Defs[id] != nil {
					nv := &value{}
					it.env[it.info.Defs[id]] = nv
					targets = append(targets, nv)
					continue
				}
			}
			targets = append(targets, it.lvalue(l))
		}
		for i, t := range targets {
			if t != nil {
				*t = vals[i]
			}
		}
	case *ast.IncDecStmt:
		t := it.lvalue(x.X)
		if t.k != kConc {
			it.fail("++/-- on an input value")
		}
		if x.Tok == token.INC {
			t.n++
		} else {
			t.n--
		}
	case *ast.DeclStmt:
		gd, ok := x.Decl.(*ast.GenDecl)
		if !ok {
			it.fail("declaration statement")
		}
		switch gd.Tok {
		case token.CONST, token.TYPE:
			// constants are folded by the type checker wherever they are used
		case token.VAR:
			for _, sp := range gd.Specs {
				vs := sp.(*ast.ValueSpec)
				for i, n := range vs.Names {
					nv := &value{k: kConc}
					if i < len(vs.Values) && len(vs.Values) == len(vs.Names) {
						v := it.eval(vs.Values[i]).copy()
						nv = &v
					} else if len(vs.Values) > 0 {
						it.fail("tuple variable declaration")
					} else if b, isB := it.info.Defs[n].Type().Underlying().(*types.Basic); isB && b.Info()&types.IsBoolean != 0 {
						nv = &value{k: kBool}
					} else if !isB || b.Info()&types.IsInteger == 0 {
						it.fail("variable of unsupported type")
					}
					it.env[it.info.Defs[n]] = nv
				}
			}
		default:
			it.fail("declaration statement")
		}
	case *ast.ExprStmt:
		it.fail("expression statement")
	default:
		it.fail("statement form %T (loops are outside the fragment)", s)
	}
}

// preorders enumerates every total preorder of n atoms as a rank vector
// (ranks 0..k-1, every rank used): the Fubini numbers 1,3,13,75,541,4683.
func preorders(n int, visit func(rank []int)) int {
	count := 0
	rank := make([]int, n)
	var rec func(i, used int)
	rec = func(i, used int) {
		if i == n {
			// every rank < used must occur; ranks assigned as "restricted growth" over sorted blocks is
			// not enough for ordered partitions, so check surjectivity explicitly.
			seen := make([]bool, used)
			for _, r := range rank {
				seen[r] = true
			}
			for _, s := range seen {
				if !s {
					return
				}
			}
			count++
			visit(rank)
			return
		}
		for r := 0; r < n; r++ {
			rank[i] = r
			u := used
			if r+1 > u {
				u = r + 1
			}
			rec(i+1, u)
		}
	}
	rec(0, 0)
	return count
}

// evalFunc runs fd under one preorder; ok=false means outside the fragment.
func evalFunc(p *core.Prog, info *types.Info, fd *ast.FuncDecl, rank []int, recv *value, args []value) (out []value, err error) {
	defer func() {
		if e := recover(); e != nil {
			if o, ok := e.(outside); ok {
				err = o
				return
			}
			panic(e)
		}
	}()
	it := &interp{info: info, rank: rank, env: map[types.Object]*value{}, prog: p}
	return it.run(fd, recv, args), nil
}

// Result of a finite-quotient evaluation.
type Result struct {
	Int  int64
	Bool bool
	IsB  bool
}

// EvalInts evaluates a function of the comparison/arithmetic fragment on
// concrete integer arguments. It is used only together with QuotientUses,
// which proves that the function depends on its parameter solely through
// `p / c` and `p % c` for the listed constants, so that finitely many
// representatives decide it for every integer.
func EvalInts(p *core.Prog, pkg, name string, args ...int64) (Result, error) {
	fd := p.FuncDecl(pkg, name)
	if fd == nil || fd.Body == nil {
		return Result{}, fmt.Errorf("anchor-unresolved: %s.%s", pkg, name)
	}
	var vs []value
	for _, a := range args {
		vs = append(vs, concV(a))
	}
	out, err := evalFunc(p, p.Info(pkg), fd, nil, nil, vs)
	if err != nil {
		return Result{}, err
	}
	if len(out) != 1 {
		return Result{}, fmt.Errorf("function does not return a single value")
	}
	switch out[0].k {
	case kConc:
		return Result{Int: out[0].n}, nil
	case kBool:
		return Result{Bool: out[0].b, IsB: true}, nil
	}
	return Result{}, fmt.Errorf("result is neither an integer nor a boolean")
}

// QuotientUses checks that every use of parameter #idx of the function is the
// left operand of `/ c` or `% c` with c one of moduli.
func QuotientUses(p *core.Prog, pkg, name string, idx int, moduli []int64) (bool, string) {
	fd := p.FuncDecl(pkg, name)
	if fd == nil || fd.Body == nil {
		return false, "anchor-unresolved"
	}
	info := p.Info(pkg)
	var param types.Object
	k := 0
	for _, f := range fd.Type.Params.List {
		for _, n := range f.Names {
			if k == idx {
				param = info.Defs[n]
			}
			k++
		}
	}
	if param == nil {
		return false, "parameter not found"
	}
	par := core.Parents(fd.Body)
	why := ""
	ast.Inspect(fd.Body, func(n ast.Node) bool {
		id, ok := n.(*ast.Ident)
		if !ok || info.Uses[id] != param {
			return true
		}
		var up ast.Node = id
		for {
			q, isParen := par[up].(*ast.ParenExpr)
			if !isParen {
				break
			}
			up = q
		}
		be, ok := par[up].(*ast.BinaryExpr)
		if !ok || (be.Op != token.QUO && be.Op != token.REM) || ast.Unparen(be.X) != ast.Expr(id) {
			why = "the parameter is used other than as the dividend of / or %"
			return true
		}
		c, ok := core.ConstInt(info, be.Y)
		okc := false
		for _, m := range moduli {
			if ok && c == m {
				okc = true
			}
		}
		if !okc {
			why = fmt.Sprintf("the parameter is divided by %d, which is not one of the layout moduli %v", c, moduli)
		}
		return true
	})
	return why == "", why
}

// EvalOriginLen evaluates a method with a struct receiver modelled by its
// fields: byte-slice fields are given by length only, boolean fields by value.
func EvalMethodOnStruct(p *core.Prog, pkg, name string, lens map[string]int64, bools map[string]bool) (Result, error) {
	fd := p.FuncDecl(pkg, name)
	if fd == nil || fd.Body == nil {
		return Result{}, fmt.Errorf("anchor-unresolved: %s.%s", pkg, name)
	}
	recv := &value{k: kStruct, flds: map[string]*value{}}
	for k, n := range lens {
		recv.flds[k] = &value{k: kLen, n: n}
	}
	for k, b := range bools {
		recv.flds[k] = &value{k: kBool, b: b}
	}
	out, err := evalFunc(p, p.Info(pkg), fd, nil, recv, nil)
	if err != nil {
		return Result{}, err
	}
	if len(out) != 1 {
		return Result{}, fmt.Errorf("method does not return a single value")
	}
	switch out[0].k {
	case kConc:
		return Result{Int: out[0].n}, nil
	case kBool:
		return Result{Bool: out[0].b, IsB: true}, nil
	}
	return Result{}, fmt.Errorf("result is neither an integer nor a boolean")
}

package orders

// Order-type interpreter: an abstract interpreter for the region algebra
// (flattenRegion, Minimize, invertSegments, InvertLinear, InvertCircular and
// what they call). Coordinates are symbolic atoms ranked by a total preorder;
// the code may only compare, copy and store them. Everything else - slice
// lengths, indices, loop counters - is concrete. Because the functions touch
// coordinates through comparisons alone, their behaviour on one representative
// of an order type is their behaviour on every integer input of that order
// type; enumerating all order types of k segments therefore decides the
// function for all inputs with k segments. Arithmetic on an atom aborts the
// evaluation ("outside the fragment") and the obligation is undecided.

import (
	"fmt"
	"go/ast"
	"go/constant"
	"go/token"
	"go/types"

	"gtsverif/core"
)

type vk int

const (
	vInt vk = iota
	vBool
	vArr
	vSlice
	vNil
	vTuple
)

// V is an abstract value.
type V struct {
	K      vk
	IsAtom bool
	A      int
	N      int64
	B      bool
	Arr    []V
	S      *sliceV
	T      string // dynamic named type, for dispatch and type switches
	Tup    []V
}

type sliceV struct {
	back *[]V
	off  int
	ln   int
	cp   int
}

func (v V) clone() V {
	if v.K == vArr {
		a := make([]V, len(v.Arr))
		for i := range v.Arr {
			a[i] = v.Arr[i].clone()
		}
		v.Arr = a
	}
	if v.K == vSlice && v.S != nil {
		s := *v.S
		v.S = &s
	}
	return v
}

func atom(id int) V    { return V{K: vInt, IsAtom: true, A: id} }
func conc(n int64) V   { return V{K: vInt, N: n} }
func boolean(b bool) V { return V{K: vBool, B: b} }
func segOf(a, b V) V   { return V{K: vArr, Arr: []V{a, b}, T: "Segment"} }
func sliceOf(t string, elems ...V) V {
	b := make([]V, len(elems))
	copy(b, elems)
	return V{K: vSlice, S: &sliceV{back: &b, ln: len(b), cp: len(b)}, T: t}
}

type otiRet struct{ vals []V }
type otiBreak struct{}
type otiContinue struct{}

// Oti is one evaluation context.
type Oti struct {
	p     *core.Prog
	rank  []int
	zero  int // atom that stands for the literal 0 when it meets a coordinate (-1: none)
	steps int
	limit int
}

type frame struct {
	it   *Oti
	info *types.Info
	env  map[types.Object]*V
}

func (it *Oti) fail(format string, a ...interface{}) {
	panic(outside{fmt.Sprintf(format, a...)})
}

func (it *Oti) tick() {
	it.steps++
	if it.steps > it.limit {
		panic(outside{"step budget exhausted (the function may not terminate on this ordering)"})
	}
}

func (it *Oti) cmp(op token.Token, x, y V) bool {
	if x.K != vInt || y.K != vInt {
		it.fail("comparison of non-integers")
	}
	var a, b int64
	switch {
	case x.IsAtom && y.IsAtom:
		a, b = int64(it.rank[x.A]), int64(it.rank[y.A])
	case !x.IsAtom && !y.IsAtom:
		a, b = x.N, y.N
	case x.IsAtom && y.N == 0 && it.zero >= 0:
		a, b = int64(it.rank[x.A]), int64(it.rank[it.zero])
	case y.IsAtom && x.N == 0 && it.zero >= 0:
		a, b = int64(it.rank[it.zero]), int64(it.rank[y.A])
	default:
		it.fail("comparison between a coordinate and a concrete number other than 0")
	}
	switch op {
	case token.LSS:
		return a < b
	case token.LEQ:
		return a <= b
	case token.GTR:
		return a > b
	case token.GEQ:
		return a >= b
	case token.EQL:
		return a == b
	case token.NEQ:
		return a != b
	}
	it.fail("operator %s", op)
	return false
}

func (f *frame) obj(id *ast.Ident) types.Object {
	if o := f.info.Uses[id]; o != nil {
		return o
	}
	return f.info.Defs[id]
}

func namedName(t types.Type) string {
	if n, ok := t.(*types.Named); ok {
		return n.Obj().Name()
	}
	return ""
}

func (f *frame) zeroOf(t types.Type) V {
	switch u := t.Underlying().(type) {
	case *types.Basic:
		if u.Info()&types.IsBoolean != 0 {
			return boolean(false)
		}
		if u.Info()&types.IsInteger != 0 {
			return conc(0)
		}
	case *types.Array:
		if u.Len() == 2 {
			v := segOf(f.zeroOf(u.Elem()), f.zeroOf(u.Elem()))
			v.T = namedName(t)
			return v
		}
	case *types.Slice:
		return V{K: vNil, T: namedName(t)}
	case *types.Interface:
		return V{K: vNil}
	}
	f.it.fail("zero value of %s", t)
	return V{}
}

func (f *frame) lvalue(e ast.Expr) *V {
	switch x := ast.Unparen(e).(type) {
	case *ast.Ident:
		o := f.obj(x)
		if c, ok := f.env[o]; ok {
			return c
		}
		c := &V{}
		f.env[o] = c
		return c
	case *ast.IndexExpr:
		idx := f.eval(x.Index)
		if idx.K != vInt || idx.IsAtom {
			f.it.fail("index by a coordinate")
		}
		// slices index through their backing store, arrays through the variable
		if tv, ok := f.info.Types[x.X]; ok {
			if _, isSlice := tv.Type.Underlying().(*types.Slice); isSlice {
				s := f.eval(x.X)
				if s.K != vSlice || int(idx.N) < 0 || int(idx.N) >= s.S.ln {
					f.it.fail("slice index %d out of range", idx.N)
				}
				return &(*s.S.back)[s.S.off+int(idx.N)]
			}
		}
		base := f.lvalue(x.X)
		if base.K != vArr || int(idx.N) < 0 || int(idx.N) >= len(base.Arr) {
			f.it.fail("array index out of range")
		}
		return &base.Arr[idx.N]
	}
	f.it.fail("unsupported assignment target")
	return nil
}

func (f *frame) eval(e ast.Expr) V {
	f.it.tick()
	e = ast.Unparen(e)
	if tv, ok := f.info.Types[e]; ok && tv.Value != nil {
		switch tv.Value.Kind() {
		case constant.Int:
			n, _ := constant.Int64Val(tv.Value)
			return conc(n)
		case constant.Bool:
			return boolean(constant.BoolVal(tv.Value))
		}
	}
	switch x := e.(type) {
	case *ast.Ident:
		if x.Name == "nil" {
			return V{K: vNil}
		}
		if c, ok := f.env[f.obj(x)]; ok {
			return c.clone()
		}
		f.it.fail("reference to %s", x.Name)
	case *ast.IndexExpr:
		return f.lvalue(x).clone()
	case *ast.SliceExpr:
		s := f.eval(x.X)
		if s.K == vNil {
			return s
		}
		if s.K != vSlice {
			f.it.fail("slice of a non-slice")
		}
		lo, hi := 0, s.S.ln
		if x.Low != nil {
			v := f.eval(x.Low)
			if v.IsAtom {
				f.it.fail("slice bound is a coordinate")
			}
			lo = int(v.N)
		}
		if x.High != nil {
			v := f.eval(x.High)
			if v.IsAtom {
				f.it.fail("slice bound is a coordinate")
			}
			hi = int(v.N)
		}
		if lo < 0 || hi < lo || hi > s.S.cp {
			f.it.fail("slice bounds out of range [%d:%d] with capacity %d", lo, hi, s.S.cp)
		}
		return V{K: vSlice, S: &sliceV{back: s.S.back, off: s.S.off + lo, ln: hi - lo, cp: s.S.cp - lo}, T: s.T}
	case *ast.UnaryExpr:
		v := f.eval(x.X)
		switch {
		case x.Op == token.NOT && v.K == vBool:
			return boolean(!v.B)
		case x.Op == token.SUB && v.K == vInt && !v.IsAtom:
			return conc(-v.N)
		}
		f.it.fail("unary %s on a coordinate", x.Op)
	case *ast.BinaryExpr:
		switch x.Op {
		case token.LAND:
			l := f.eval(x.X)
			if !l.B {
				return boolean(false)
			}
			return f.eval(x.Y)
		case token.LOR:
			l := f.eval(x.X)
			if l.B {
				return boolean(true)
			}
			return f.eval(x.Y)
		case token.LSS, token.LEQ, token.GTR, token.GEQ, token.EQL, token.NEQ:
			l, r := f.eval(x.X), f.eval(x.Y)
			if l.K == vBool && r.K == vBool {
				return boolean((l.B == r.B) == (x.Op == token.EQL))
			}
			if l.K == vNil || r.K == vNil {
				eq := l.K == vNil && r.K == vNil
				return boolean(eq == (x.Op == token.EQL))
			}
			return boolean(f.it.cmp(x.Op, l, r))
		default:
			l, r := f.eval(x.X), f.eval(x.Y)
			if l.K == vInt && r.K == vInt && !l.IsAtom && !r.IsAtom {
				switch x.Op {
				case token.ADD:
					return conc(l.N + r.N)
				case token.SUB:
					return conc(l.N - r.N)
				case token.MUL:
					return conc(l.N * r.N)
				case token.QUO:
					if r.N != 0 {
						return conc(l.N / r.N)
					}
				case token.REM:
					if r.N != 0 {
						return conc(l.N % r.N)
					}
				}
			}
			f.it.fail("arithmetic (%s) on a coordinate", x.Op)
		}
	case *ast.CallExpr:
		vs := f.call(x)
		if len(vs) != 1 {
			f.it.fail("call yields %d values in a single-value context", len(vs))
		}
		return vs[0]
	case *ast.CompositeLit:
		t := f.info.Types[x].Type
		switch u := t.Underlying().(type) {
		case *types.Array:
			if u.Len() == 2 && len(x.Elts) == 2 {
				v := segOf(f.eval(x.Elts[0]), f.eval(x.Elts[1]))
				v.T = namedName(t)
				return v
			}
		case *types.Slice:
			var elems []V
			for _, el := range x.Elts {
				ev := f.eval(el)
				elems = append(elems, ev)
			}
			return sliceOf(namedName(t), elems...)
		}
		f.it.fail("composite literal of type %s", t)
	case *ast.TypeAssertExpr:
		v := f.eval(x.X)
		want := namedName(f.info.Types[x.Type].Type)
		if v.T != want {
			f.it.fail("type assertion to %s fails on a %s (this would panic)", want, v.T)
		}
		return v
	}
	f.it.fail("expression form %T", e)
	return V{}
}

func (f *frame) call(c *ast.CallExpr) []V {
	it := f.it
	// conversions
	if core.IsConversion(f.info, c) && len(c.Args) == 1 {
		v := f.eval(c.Args[0])
		t := f.info.Types[c.Fun].Type
		if n := namedName(t); n != "" {
			v.T = n
		} else if _, isSlice := t.Underlying().(*types.Slice); isSlice {
			v.T = ""
		}
		return []V{v}
	}
	// builtins
	if id, ok := ast.Unparen(c.Fun).(*ast.Ident); ok {
		if b, isB := f.info.Uses[id].(*types.Builtin); isB {
			switch b.Name() {
			case "len", "cap":
				v := f.eval(c.Args[0])
				switch v.K {
				case vNil:
					return []V{conc(0)}
				case vSlice:
					if b.Name() == "cap" {
						return []V{conc(int64(v.S.cp))}
					}
					return []V{conc(int64(v.S.ln))}
				case vArr:
					return []V{conc(int64(len(v.Arr)))}
				}
				it.fail("len of an unmodelled value")
			case "make":
				t := f.info.Types[c.Args[0]].Type
				st, ok := t.Underlying().(*types.Slice)
				if !ok {
					it.fail("make of a non-slice")
				}
				ln := f.eval(c.Args[1])
				cp := ln
				if len(c.Args) == 3 {
					cp = f.eval(c.Args[2])
				}
				if ln.IsAtom || cp.IsAtom || ln.N < 0 || cp.N < ln.N {
					it.fail("make with a coordinate or negative length")
				}
				back := make([]V, cp.N)
				for i := range back {
					back[i] = f.zeroOf(st.Elem())
				}
				return []V{{K: vSlice, S: &sliceV{back: &back, ln: int(ln.N), cp: int(cp.N)}, T: namedName(t)}}
			case "append":
				s := f.eval(c.Args[0])
				var add []V
				if c.Ellipsis.IsValid() {
					src := f.eval(c.Args[1])
					if src.K == vSlice {
						for i := 0; i < src.S.ln; i++ {
							add = append(add, (*src.S.back)[src.S.off+i].clone())
						}
					}
				} else {
					for _, a := range c.Args[1:] {
						add = append(add, f.eval(a))
					}
				}
				if s.K == vNil {
					out := sliceOf(s.T, add...)
					return []V{out}
				}
				if s.S.ln+len(add) <= s.S.cp {
					for i, v := range add {
						(*s.S.back)[s.S.off+s.S.ln+i] = v
					}
					return []V{{K: vSlice, S: &sliceV{back: s.S.back, off: s.S.off, ln: s.S.ln + len(add), cp: s.S.cp}, T: s.T}}
				}
				ncap := 2 * s.S.cp
				if ncap < s.S.ln+len(add) {
					ncap = s.S.ln + len(add)
				}
				nb := make([]V, ncap)
				for i := 0; i < s.S.ln; i++ {
					nb[i] = (*s.S.back)[s.S.off+i].clone()
				}
				for i, v := range add {
					nb[s.S.ln+i] = v
				}
				for i := s.S.ln + len(add); i < ncap; i++ {
					nb[i] = conc(0)
				}
				return []V{{K: vSlice, S: &sliceV{back: &nb, ln: s.S.ln + len(add), cp: ncap}, T: s.T}}
			case "copy":
				dst, src := f.eval(c.Args[0]), f.eval(c.Args[1])
				if dst.K != vSlice || src.K != vSlice {
					return []V{conc(0)}
				}
				n := dst.S.ln
				if src.S.ln < n {
					n = src.S.ln
				}
				tmp := make([]V, n)
				for i := 0; i < n; i++ {
					tmp[i] = (*src.S.back)[src.S.off+i].clone()
				}
				for i := 0; i < n; i++ {
					(*dst.S.back)[dst.S.off+i] = tmp[i]
				}
				return []V{conc(int64(n))}
			case "panic":
				it.fail("the function panics on this ordering")
			}
			it.fail("builtin %s", b.Name())
		}
	}
	fn := core.Callee(f.info, c)
	// sort.Sort / sort.Stable over a repo sort.Interface: insertion sort through the interpreted methods
	if fn != nil && fn.Pkg() != nil && fn.Pkg().Path() == "sort" && (fn.Name() == "Sort" || fn.Name() == "Stable") {
		x := f.eval(c.Args[0])
		if x.K == vNil {
			return nil
		}
		n := f.method(x, "Len", nil)[0]
		for i := int64(1); i < n.N; i++ {
			for j := i; j > 0; j-- {
				if !f.method(x, "Less", []V{conc(j), conc(j - 1)})[0].B {
					break
				}
				f.method(x, "Swap", []V{conc(j), conc(j - 1)})
			}
		}
		return nil
	}
	if fn == nil {
		it.fail("dynamic call %s", types.ExprString(c.Fun))
	}
	sig := fn.Type().(*types.Signature)
	var args []V
	for _, a := range c.Args {
		if c.Ellipsis.IsValid() {
			args = append(args, f.eval(a))
			continue
		}
		args = append(args, f.eval(a))
	}
	if sig.Variadic() && !c.Ellipsis.IsValid() {
		np := sig.Params().Len()
		fixed := args[:np-1]
		rest := args[np-1:]
		args = append(append([]V{}, fixed...), sliceOf("", rest...))
	}
	if sig.Recv() != nil {
		sel := ast.Unparen(c.Fun).(*ast.SelectorExpr)
		recv := f.eval(sel.X)
		return f.method(recv, fn.Name(), args)
	}
	if fn.Pkg() == nil || fn.Pkg().Path() != core.PkgGts {
		it.fail("call of %s.%s", fn.Pkg().Path(), fn.Name())
	}
	fd := it.p.FuncDecl(core.PkgGts, fn.Name())
	if fd == nil || fd.Body == nil {
		it.fail("no body for %s", fn.Name())
	}
	return it.run(fd, nil, args)
}

// method dispatches on the dynamic type of the receiver.
func (f *frame) method(recv V, name string, args []V) []V {
	if recv.T == "" {
		f.it.fail("method %s on a value without a dynamic type", name)
	}
	fd := f.it.p.FuncDecl(core.PkgGts, recv.T+"."+name)
	if fd == nil || fd.Body == nil {
		f.it.fail("no method %s.%s", recv.T, name)
	}
	return f.it.run(fd, &recv, args)
}

func (it *Oti) run(fd *ast.FuncDecl, recv *V, args []V) (out []V) {
	info := it.p.Info(core.PkgGts)
	f := &frame{it: it, info: info, env: map[types.Object]*V{}}
	if fd.Recv != nil && len(fd.Recv.List[0].Names) > 0 && recv != nil {
		r := recv.clone()
		f.env[info.Defs[fd.Recv.List[0].Names[0]]] = &r
	}
	i := 0
	for _, fl := range fd.Type.Params.List {
		for _, n := range fl.Names {
			if i >= len(args) {
				it.fail("too few arguments for %s", fd.Name.Name)
			}
			v := args[i].clone()
			f.env[info.Defs[n]] = &v
			i++
		}
	}
	defer func() {
		if e := recover(); e != nil {
			if rs, ok := e.(otiRet); ok {
				out = rs.vals
				return
			}
			panic(e)
		}
	}()
	f.block(fd.Body.List)
	if fd.Type.Results != nil && len(fd.Type.Results.List) > 0 {
		it.fail("%s falls off its end", fd.Name.Name)
	}
	return nil
}

func (f *frame) block(list []ast.Stmt) {
	for _, s := range list {
		f.stmt(s)
	}
}

func (f *frame) cond(e ast.Expr) bool {
	v := f.eval(e)
	if v.K != vBool {
		f.it.fail("non-boolean condition")
	}
	return v.B
}

func (f *frame) loopBody(body *ast.BlockStmt) (brk bool) {
	defer func() {
		if e := recover(); e != nil {
			switch e.(type) {
			case otiBreak:
				brk = true
			case otiContinue:
			default:
				panic(e)
			}
		}
	}()
	f.block(body.List)
	return false
}

func (f *frame) assign(lhs []ast.Expr, vals []V, define bool) {
	if len(lhs) != len(vals) {
		f.it.fail("assignment arity")
	}
	targets := make([]*V, len(lhs))
	for i, l := range lhs {
		if id, ok := l.(*ast.Ident); ok {
			if id.Name == "_" {
				continue
			}
			if define && f.info.Defs[id] != nil {
				c := &V{}
				f.env[f.info.Defs[id]] = c
				targets[i] = c
				continue
			}
		}
		targets[i] = f.lvalue(l)
	}
	for i, t := range targets {
		if t != nil {
			*t = vals[i].clone()
		}
	}
}

func (f *frame) stmt(s ast.Stmt) {
	f.it.tick()
	switch x := s.(type) {
	case *ast.BlockStmt:
		f.block(x.List)
	case *ast.ExprStmt:
		if c, ok := ast.Unparen(x.X).(*ast.CallExpr); ok {
			f.call(c)
			return
		}
		f.it.fail("expression statement")
	case *ast.ReturnStmt:
		var vals []V
		if len(x.Results) == 1 {
			if c, ok := ast.Unparen(x.Results[0]).(*ast.CallExpr); ok {
				panic(otiRet{f.call(c)})
			}
		}
		for _, r := range x.Results {
			vals = append(vals, f.eval(r))
		}
		panic(otiRet{vals})
	case *ast.BranchStmt:
		switch x.Tok {
		case token.BREAK:
			panic(otiBreak{})
		case token.CONTINUE:
			panic(otiContinue{})
		}
		f.it.fail("branch %s", x.Tok)
	case *ast.IfStmt:
		if x.Init != nil {
			f.stmt(x.Init)
		}
		if f.cond(x.Cond) {
			f.block(x.Body.List)
		} else if x.Else != nil {
			f.stmt(x.Else)
		}
	case *ast.ForStmt:
		if x.Init != nil {
			f.stmt(x.Init)
		}
		for x.Cond == nil || f.cond(x.Cond) {
			if f.loopBody(x.Body) {
				break
			}
			if x.Post != nil {
				f.stmt(x.Post)
			}
		}
	case *ast.RangeStmt:
		coll := f.eval(x.X)
		n := 0
		if coll.K == vSlice {
			n = coll.S.ln
		}
		for i := 0; i < n; i++ {
			if x.Key != nil {
				f.assign([]ast.Expr{x.Key}, []V{conc(int64(i))}, x.Tok == token.DEFINE)
			}
			if x.Value != nil {
				f.assign([]ast.Expr{x.Value}, []V{(*coll.S.back)[coll.S.off+i].clone()}, x.Tok == token.DEFINE)
			}
			if f.loopBody(x.Body) {
				break
			}
		}
	case *ast.IncDecStmt:
		t := f.lvalue(x.X)
		if t.K != vInt || t.IsAtom {
			f.it.fail("++/-- on a coordinate")
		}
		if x.Tok == token.INC {
			t.N++
		} else {
			t.N--
		}
	case *ast.AssignStmt:
		if x.Tok != token.ASSIGN && x.Tok != token.DEFINE {
			t := f.lvalue(x.Lhs[0])
			r := f.eval(x.Rhs[0])
			if t.K != vInt || t.IsAtom || r.IsAtom {
				f.it.fail("arithmetic (%s) on a coordinate", x.Tok)
			}
			switch x.Tok {
			case token.ADD_ASSIGN:
				t.N += r.N
			case token.SUB_ASSIGN:
				t.N -= r.N
			default:
				f.it.fail("compound assignment %s", x.Tok)
			}
			return
		}
		var vals []V
		if len(x.Rhs) == 1 && len(x.Lhs) > 1 {
			c, ok := ast.Unparen(x.Rhs[0]).(*ast.CallExpr)
			if !ok {
				f.it.fail("tuple assignment from a non-call")
			}
			vals = f.call(c)
		} else {
			for _, r := range x.Rhs {
				vals = append(vals, f.eval(r))
			}
		}
		f.assign(x.Lhs, vals, x.Tok == token.DEFINE)
	case *ast.DeclStmt:
		gd, ok := x.Decl.(*ast.GenDecl)
		if !ok || gd.Tok != token.VAR {
			return
		}
		for _, sp := range gd.Specs {
			vs := sp.(*ast.ValueSpec)
			for i, n := range vs.Names {
				var v V
				if i < len(vs.Values) {
					v = f.eval(vs.Values[i])
				} else {
					v = f.zeroOf(f.info.Defs[n].Type())
				}
				c := v
				f.env[f.info.Defs[n]] = &c
			}
		}
	case *ast.SwitchStmt:
		if x.Init != nil {
			f.stmt(x.Init)
		}
		var tag *V
		if x.Tag != nil {
			t := f.eval(x.Tag)
			tag = &t
		}
		var deflt *ast.CaseClause
		for _, cc := range x.Body.List {
			cl := cc.(*ast.CaseClause)
			if cl.List == nil {
				deflt = cl
				continue
			}
			for _, e := range cl.List {
				hit := false
				if tag == nil {
					hit = f.cond(e)
				} else {
					hit = f.it.cmp(token.EQL, *tag, f.eval(e))
				}
				if hit {
					f.block(cl.Body)
					return
				}
			}
		}
		if deflt != nil {
			f.block(deflt.Body)
		}
	case *ast.TypeSwitchStmt:
		var operand ast.Expr
		var bind *ast.Ident
		switch a := x.Assign.(type) {
		case *ast.AssignStmt:
			bind = a.Lhs[0].(*ast.Ident)
			operand = a.Rhs[0].(*ast.TypeAssertExpr).X
		case *ast.ExprStmt:
			operand = a.X.(*ast.TypeAssertExpr).X
		}
		v := f.eval(operand)
		var chosen *ast.CaseClause
		var deflt *ast.CaseClause
		for _, cc := range x.Body.List {
			cl := cc.(*ast.CaseClause)
			if cl.List == nil {
				deflt = cl
				continue
			}
			for _, te := range cl.List {
				if namedName(f.info.Types[te].Type) == v.T && v.T != "" && chosen == nil {
					chosen = cl
				}
			}
		}
		if chosen == nil {
			chosen = deflt
		}
		if chosen != nil {
			if bind != nil {
				if o := f.info.Implicits[chosen]; o != nil {
					c := v.clone()
					f.env[o] = &c
				}
			}
			f.block(chosen.Body)
		}
	default:
		f.it.fail("statement form %T", s)
	}
}

// Call evaluates a function of package gts on abstract arguments under one preorder.
func (it *Oti) Call(name string, args ...V) (out []V, err error) {
	defer func() {
		if e := recover(); e != nil {
			if o, ok := e.(outside); ok {
				err = o
				return
			}
			panic(e)
		}
	}()
	fd := it.p.FuncDecl(core.PkgGts, name)
	if fd == nil || fd.Body == nil {
		return nil, fmt.Errorf("anchor-unresolved: gts.%s", name)
	}
	return it.run(fd, nil, args), nil
}

package orders

import (
	"fmt"
	"runtime"
	"sync"

	"gtsverif/core"
)

const (
	atomZero = 0
	atomN    = 1
)

type cellSeg struct{ lo, hi int }

func (it *Oti) rk(v V) (int, bool) {
	if v.K != vInt {
		return 0, false
	}
	if v.IsAtom {
		return it.rank[v.A], true
	}
	if v.N == 0 {
		return it.rank[atomZero], true
	}
	return 0, false
}

func (it *Oti) segs(v V, allowNested bool) ([]cellSeg, string) {
	if v.K == vNil {
		return nil, ""
	}
	if v.K != vSlice {
		return nil, "result is not a slice"
	}
	var out []cellSeg
	for i := 0; i < v.S.ln; i++ {
		e := (*v.S.back)[v.S.off+i]
		switch {
		case e.K == vArr && len(e.Arr) == 2:
			lo, ok1 := it.rk(e.Arr[0])
			hi, ok2 := it.rk(e.Arr[1])
			if !ok1 || !ok2 {
				return nil, "a result coordinate is not one of the input coordinates"
			}
			out = append(out, cellSeg{lo, hi})
		case e.K == vSlice && allowNested:
			sub, why := it.segs(e, false)
			if why != "" {
				return nil, why
			}
			out = append(out, sub...)
		default:
			return nil, "result element is neither a segment nor a region list"
		}
	}
	return out, ""
}

// RegionAlgebra decides MINIMIZE / INVERT for all order types of up to kMax segments.
func RegionAlgebra(p *core.Prog, r *core.Report, kMax int) {
	regionAlgebra(p, r, kMax, 1)
}

// RegionAlgebraParallel is RegionAlgebra with the orderings spread over all
// cores (thorough tier: one more segment).
func RegionAlgebraParallel(p *core.Prog, r *core.Report, kMax int) {
	regionAlgebra(p, r, kMax, runtime.NumCPU())
}

func regionAlgebra(p *core.Prog, r *core.Report, kMax int, workers int) {
	r.Rule("MINIMIZE", "for every ordering of the endpoints of 0 to k non-empty segments (either orientation, flat or nested; 0: the empty collection), Minimize returns forward, non-empty, strictly increasing, non-abutting segments whose union is exactly the union of the inputs; decided by abstract interpretation over order types (coordinates are only compared, copied and stored)", 1)
	r.Rule("INVERT", "for the same orderings with 0 <= every endpoint <= n, InvertLinear returns non-empty segments that together with the minimized segments cover every position of [0,n) exactly once; InvertCircular covers the same positions and merges the last and first gap into one region exactly when neither 0 nor n is covered", 2)
	// the entry points and the sort interface; internal helpers (flattenRegion, invertSegments, or
	// whatever they are called or turned into) are followed by the interpreter as it meets them
	for _, fn := range []string{"Minimize", "InvertLinear", "InvertCircular", "BySegment.Less", "BySegment.Swap", "BySegment.Len"} {
		if p.FuncDecl(core.PkgGts, fn) == nil {
			r.Und("MINIMIZE", "gts."+fn+"|anchor", "-", "anchor-unresolved")
			return
		}
		r.Fn("gts." + fn)
	}
	type failure struct{ rule, what string }
	var fails []failure
	und := ""
	orderings, evaluated := 0, 0
	names := func(k int) []string {
		n := []string{"0", "n"}
		for i := 0; i < k; i++ {
			n = append(n, fmt.Sprintf("s%d.head", i), fmt.Sprintf("s%d.tail", i))
		}
		return n
	}
	var mu sync.Mutex
	record := func(rule, what string) {
		mu.Lock()
		defer mu.Unlock()
		for _, f := range fails {
			if f.rule == rule {
				return
			}
		}
		fails = append(fails, failure{rule, what})
	}
	for k := 0; k <= kMax && und == ""; k++ { // k = 0: the empty collection
		k := k
		work := func(pr []int) {
			mu.Lock()
			stop := und != "" || len(fails) >= 2
			mu.Unlock()
			if stop {
				return
			}
			// non-empty inputs only
			for i := 0; i < k; i++ {
				if pr[2*i] == pr[2*i+1] {
					return
				}
			}
			maxr := 0
			for _, x := range pr {
				if x > maxr {
					maxr = x
				}
			}
			for _, zr := range []int{0, 1} {
				for _, nr := range []int{maxr + 1, maxr + 2} {
					mu.Lock()
					orderings++
					mu.Unlock()
					rank := make([]int, 2+2*k)
					rank[atomZero], rank[atomN] = zr, nr
					for i, x := range pr {
						rank[2+i] = x + 1
					}
					// input shapes: flat list; for k==1 also a bare segment; for k==3 also a nested list
					var segVals []V
					for i := 0; i < k; i++ {
						segVals = append(segVals, segOf(atom(2+2*i), atom(3+2*i)))
					}
					shapes := []V{sliceOf("Regions", segVals...)}
					if k == 1 {
						shapes = append(shapes, segVals[0])
					}
					if k == 3 {
						shapes = append(shapes, sliceOf("Regions", segVals[0], sliceOf("Regions", segVals[1], segVals[2])))
					}
					// covered cells
					covered := map[int]bool{}
					for i := 0; i < k; i++ {
						lo, hi := rank[2+2*i], rank[3+2*i]
						if hi < lo {
							lo, hi = hi, lo
						}
						for c := lo; c < hi; c++ {
							covered[c] = true
						}
					}
					desc := showRank(names(k), rank)
					for _, arg := range shapes {
						it := &Oti{p: p, rank: rank, zero: atomZero, limit: 200000}
						mu.Lock()
						evaluated++
						mu.Unlock()
						out, err := it.Call("Minimize", arg.clone())
						if err != nil {
							if _, isOut := err.(outside); isOut {
								record("MINIMIZE", "Minimize: "+err.Error()+" for "+desc)
							} else {
								mu.Lock()
								und = err.Error()
								mu.Unlock()
							}
							continue
						}
						ss, why := it.segs(out[0], false)
						if why != "" {
							record("MINIMIZE", "Minimize: "+why+" for "+desc)
							continue
						}
						got := map[int]bool{}
						bad := ""
						for i, s := range ss {
							if s.lo >= s.hi {
								bad = "a returned segment is empty or reversed"
							}
							if i > 0 && ss[i-1].hi >= s.lo {
								bad = "returned segments overlap, abut or are out of order"
							}
							for c := s.lo; c < s.hi; c++ {
								got[c] = true
							}
						}
						for c := 0; c <= maxr+2 && bad == ""; c++ {
							if got[c] != covered[c] {
								if covered[c] {
									bad = "covered positions are lost"
								} else {
									bad = "positions no input covers are reported"
								}
							}
						}
						if bad != "" {
							record("MINIMIZE", fmt.Sprintf("Minimize: %s for the ordering %s", bad, desc))
							continue
						}
						// InvertLinear
						it2 := &Oti{p: p, rank: rank, zero: atomZero, limit: 200000}
						inv, err := it2.Call("InvertLinear", arg.clone(), atom(atomN))
						if err != nil {
							record("INVERT-LINEAR", "InvertLinear: "+err.Error()+" for "+desc)
							continue
						}
						is, why := it2.segs(inv[0], false)
						if why != "" {
							record("INVERT-LINEAR", "InvertLinear: "+why+" for "+desc)
							continue
						}
						bad = ""
						cnt := map[int]int{}
						for _, s := range is {
							if s.lo >= s.hi {
								bad = "an inverted segment is empty or reversed"
							}
							if s.lo < zr || s.hi > nr {
								bad = "an inverted segment leaves [0,n)"
							}
							for c := s.lo; c < s.hi; c++ {
								cnt[c]++
							}
						}
						for c := zr; c < nr && bad == ""; c++ {
							tot := cnt[c]
							if covered[c] {
								tot++
							}
							if tot != 1 {
								if tot == 0 {
									bad = "a position of [0,n) is in neither the regions nor their inversion"
								} else {
									bad = "a position is emitted twice"
								}
							}
						}
						if bad != "" {
							record("INVERT-LINEAR", fmt.Sprintf("InvertLinear: %s for the ordering %s", bad, desc))
							continue
						}
						// InvertCircular
						it3 := &Oti{p: p, rank: rank, zero: atomZero, limit: 200000}
						circ, err := it3.Call("InvertCircular", arg.clone(), atom(atomN))
						if err != nil {
							record("INVERT-CIRCULAR", "InvertCircular: "+err.Error()+" for "+desc)
							continue
						}
						cs, why := it3.segs(circ[0], true)
						if why != "" {
							record("INVERT-CIRCULAR", "InvertCircular: "+why+" for "+desc)
							continue
						}
						ccnt := map[int]int{}
						for _, s := range cs {
							for c := s.lo; c < s.hi; c++ {
								ccnt[c]++
							}
						}
						bad = ""
						for c := zr; c < nr; c++ {
							if ccnt[c] != cnt[c] {
								bad = "the circular inversion does not cover the same positions as the linear one"
							}
						}
						// merge across the origin exactly when neither end is covered
						touches := covered[zr] || covered[nr-1] || zr == nr
						nLin, nCirc := len(is), 0
						if circ[0].K == vSlice {
							nCirc = circ[0].S.ln
						}
						if bad == "" {
							if touches && nCirc != nLin {
								bad = "the end pieces are merged although a region touches 0 or n"
							}
							if !touches && nLin >= 2 && nCirc != nLin-1 {
								bad = "the two end pieces are not merged across the origin"
							}
							if !touches && nLin >= 2 && nCirc == nLin-1 {
								first := (*circ[0].S.back)[circ[0].S.off]
								fs, _ := it3.segs(sliceOf("", first), true)
								if first.K != vSlice || len(fs) != 2 || fs[0].hi != nr || fs[1].lo != zr {
									bad = "the merged region is not (last gap, first gap)"
								}
							}
						}
						if bad != "" {
							record("INVERT-CIRCULAR", fmt.Sprintf("InvertCircular: %s for the ordering %s", bad, desc))
						}
					}
				}
			}
		}
		if workers <= 1 {
			preorders(2*k, work)
		} else {
			ch := make(chan []int, 1024)
			var wg sync.WaitGroup
			for w := 0; w < workers; w++ {
				wg.Add(1)
				go func() {
					defer wg.Done()
					for pr := range ch {
						work(pr)
					}
				}()
			}
			preorders(2*k, func(pr []int) { ch <- append([]int(nil), pr...) })
			close(ch)
			wg.Wait()
		}
	}
	r.Extra["region_orderings"] = orderings
	r.Extra["region_evaluations"] = evaluated
	r.Extra["region_max_segments"] = kMax
	if und != "" {
		r.Und("MINIMIZE", "gts.Minimize", "-", und)
		return
	}
	has := map[string]string{}
	for _, f := range fails {
		has[f.rule] = f.what
	}
	pos := func(fn string) string { return p.Pos(p.FuncDecl(core.PkgGts, fn).Pos()) }
	if w, bad := has["MINIMIZE"]; bad {
		r.Bad("MINIMIZE", "gts.Minimize", pos("Minimize"), w)
	} else {
		r.Ok("MINIMIZE", "gts.Minimize", pos("Minimize"), fmt.Sprintf("exact partition of the covered positions on all %d orderings of up to %d segments", orderings, kMax))
	}
	for _, x := range []struct{ k, fn string }{{"INVERT-LINEAR", "InvertLinear"}, {"INVERT-CIRCULAR", "InvertCircular"}} {
		if w, bad := has[x.k]; bad {
			r.Bad("INVERT", "gts."+x.fn, pos(x.fn), w)
		} else if _, mbad := has["MINIMIZE"]; mbad {
			r.Und("INVERT", "gts."+x.fn, pos(x.fn), "not decided because Minimize already fails")
		} else {
			r.Ok("INVERT", "gts."+x.fn, pos(x.fn), fmt.Sprintf("gaps and regions partition [0,n) on all %d orderings of up to %d segments", orderings, kMax))
		}
	}
}

package siblings

import (
	"fmt"
	"go/ast"
	"go/token"
	"go/types"

	"gtsverif/core"
)

func sub(kv ...interface{}) map[[2]string]int {
	m := map[[2]string]int{}
	for i := 0; i+2 < len(kv)+1; i += 3 {
		m[[2]string{kv[i].(string), kv[i+1].(string)}] = kv[i+2].(int)
	}
	return m
}

const ruleText = "two functions the repository wrote as clones of one another (the same coordinate logic for Ranged/Ambiguous, Joined/Ordered, Insert/Embed) have equal canonical forms up to a stated, counted set of token substitutions; state only one sibling has (partial markers) is projected away first"

func joinedOrdered(method string, extra ...interface{}) Pair {
	s := sub("Join", "Order", 1)
	for k, v := range sub(extra...) {
		s[k] = v
	}
	return Pair{Rule: "SIBLING", Pkg: core.PkgGts, A: "Joined." + method, B: "Ordered." + method, Subst: s,
		Why: "Joined and Ordered differ only in the constructor that re-assembles the parts"}
}

// Shift: clones used by Insert (C02).
func Shift(p *core.Prog, r *core.Report) {
	r.Rule("SIBLING", ruleText, 2)
	Check(p, r, Pair{Rule: "SIBLING", Pkg: core.PkgGts, A: "Ranged.Shift", B: "Ambiguous.Shift", Drop: []string{"partial"}, Fold: map[string]string{"recv.Partial": "partial"},
		Subst: sub("Range", "Ambiguous", 2, "Ranged", "Ambiguous", 1, "Join", "Order", 1),
		Why:   "a range and an ambiguous span move and split at an insertion point by the same coordinate rules; only the partial markers and the joining constructor differ"})
	Delegate(p, r, "Shift")
	Check(p, r, Pair{Rule: "SIBLING", Pkg: core.PkgGts, A: "Insert", B: "Embed", Subst: sub("tryShift", "tryExpand", 1, "Shift", "Expand", 1),
		Why: "Embed behaves identically to Insert except that host locations are expanded instead of shifted"})
}

// Expand: clones used by Delete/Slice/Embed (C03, also C02).
func Expand(p *core.Prog, r *core.Report) {
	r.Rule("SIBLING", ruleText, 1)
	Check(p, r, Pair{Rule: "SIBLING", Pkg: core.PkgGts, A: "Ranged.Expand", B: "Ambiguous.Expand", Drop: []string{"partial", "j"}, Fold: map[string]string{"recv.Partial": "partial"},
		Subst: sub("Ranged", "Ambiguous", 1),
		Why:   "a range and an ambiguous span grow and shrink by the same boundary rules; only the partial markers differ"})
	Delegate(p, r, "Expand")
	Clamp(p, r)
}

// Normalize: clones used by Rotate (C04).
func Normalize(p *core.Prog, r *core.Report) {
	r.Rule("SIBLING", ruleText, 1)
	Delegate(p, r, "Normalize")
	Check(p, r, Pair{Rule: "SIBLING", Pkg: core.PkgGts, A: "Ranged.Shift", B: "Ranged.Normalize", From: "call:Range", To: "",
		BlindArgs: []string{"Range"}, Fold: map[string]string{"recv.Partial": "partial"},
		Why: "splitting a range in two (around an insertion, or across the origin) moves the 5' marker to the left piece and the 3' marker to the right piece in the same way"})
}

// Reverse: clones used by Reverse/Complement (C05).
func Reverse(p *core.Prog, r *core.Report) {
	Delegate(p, r, "Reverse")
}

// Clamp: every coordinate update in an Expand method of a contiguous location
// is clamped at the edit position: v = Max(i, v+n).
func Clamp(p *core.Prog, r *core.Report) {
	r.Rule("CLAMP", "in the Expand methods of Between, Point, Ranged and Ambiguous every update of a coordinate variable is `v = Max(i, v+n)`: a coordinate never moves left of the edit position (six sites that agree; a plain `v += n` sends locations inside a deletion to negative or foreign positions)", 6)
	info := p.Info(core.PkgGts)
	for _, tn := range []string{"Between", "Point", "Ranged", "Ambiguous"} {
		fd := p.FuncDecl(core.PkgGts, tn+".Expand")
		fn := "gts." + tn + ".Expand"
		if fd == nil || fd.Body == nil {
			r.Und("CLAMP", fn+"|anchor", "-", "anchor-unresolved")
			continue
		}
		r.Fn(fn)
		var iObj, nObj types.Object
		k := 0
		for _, f := range fd.Type.Params.List {
			for _, nm := range f.Names {
				if k == 0 {
					iObj = info.Defs[nm]
				}
				if k == 1 {
					nObj = info.Defs[nm]
				}
				k++
			}
		}
		// coordinate variables: local ints defined from the receiver
		recv := info.Defs[fd.Recv.List[0].Names[0]]
		coords := map[types.Object]bool{}
		ast.Inspect(fd.Body, func(n ast.Node) bool {
			as, ok := n.(*ast.AssignStmt)
			if !ok || as.Tok != token.DEFINE || len(as.Lhs) != len(as.Rhs) {
				return true
			}
			for i, l := range as.Lhs {
				if core.UsesObj(info, as.Rhs[i], recv) {
					if o := core.ObjOf(info, l); o != nil {
						if b, ok := o.Type().Underlying().(*types.Basic); ok && b.Info()&types.IsInteger != 0 {
							coords[o] = true
						}
					}
				}
			}
			return true
		})
		nSite := 0
		ast.Inspect(fd.Body, func(n ast.Node) bool {
			as, ok := n.(*ast.AssignStmt)
			if !ok || as.Tok == token.DEFINE || len(as.Lhs) != 1 || len(as.Rhs) != 1 {
				return true
			}
			v := core.ObjOf(info, as.Lhs[0])
			if !coords[v] {
				return true
			}
			nSite++
			key := fmt.Sprintf("%s|update#%d", fn, nSite)
			ok2 := false
			if c, isCall := ast.Unparen(as.Rhs[0]).(*ast.CallExpr); isCall && as.Tok == token.ASSIGN && core.IsCallTo(info, c, core.PkgGts+".Max") && len(c.Args) == 2 {
				for a := 0; a < 2; a++ {
					if core.ObjOf(info, c.Args[a]) != iObj {
						continue
					}
					be, isBin := ast.Unparen(c.Args[1-a]).(*ast.BinaryExpr)
					if isBin && be.Op == token.ADD {
						x, y := core.ObjOf(info, be.X), core.ObjOf(info, be.Y)
						if (x == v && y == nObj) || (x == nObj && y == v) {
							ok2 = true
						}
					}
				}
			}
			if ok2 {
				r.Ok("CLAMP", key, p.Pos(as.Pos()), "coordinate moved by n and clamped at the edit position")
			} else {
				r.Bad("CLAMP", key, p.Pos(as.Pos()), "a coordinate is updated without the `Max(i, v+n)` clamp its five siblings use: a location inside a deleted stretch moves left of the cut (possibly to a negative coordinate) instead of collapsing onto it")
			}
			return true
		})
		if nSite == 0 {
			r.Bad("CLAMP", fn+"|no-update", p.Pos(fd.Pos()), "Expand never updates a coordinate")
		}
	}
}

// Delegate decides DELEGATE for the part-wise method M of Joined and Ordered:
// every call of M inside it is on an element of the receiver with exactly the
// method's own parameters in order, and the parts are re-assembled with Join
// (Joined) resp. Order (Ordered).
func Delegate(p *core.Prog, r *core.Report, method string) {
	r.Rule("DELEGATE", "the part-wise methods of Joined and Ordered apply the same-named method to elements of the receiver with exactly their own parameters in order, and re-assemble the results with Join resp. Order", 2)
	info := p.Info(core.PkgGts)
	for _, tn := range []struct{ typ, ctor string }{{"Joined", "Join"}, {"Ordered", "Order"}} {
		fd := p.FuncDecl(core.PkgGts, tn.typ+"."+method)
		fn := "gts." + tn.typ + "." + method
		if fd == nil || fd.Body == nil {
			r.Und("DELEGATE", fn+"|anchor", "-", "anchor-unresolved")
			continue
		}
		r.Fn(fn)
		recv := info.Defs[fd.Recv.List[0].Names[0]]
		var params []types.Object
		for _, f := range fd.Type.Params.List {
			for _, nm := range f.Names {
				params = append(params, info.Defs[nm])
			}
		}
		asg := core.Assigns(info, fd.Body)
		isElem := func(e ast.Expr) bool {
			e = ast.Unparen(e)
			if ix, ok := e.(*ast.IndexExpr); ok {
				return core.ObjOf(info, ix.X) == recv
			}
			if o := core.ObjOf(info, e); o != nil {
				for _, a := range asg[o] {
					if rs, ok := a.Node.(*ast.RangeStmt); ok && a.Idx == 1 && core.ObjOf(info, rs.X) == recv {
						return true
					}
				}
			}
			return false
		}
		n, bad := 0, ""
		var badPos token.Pos
		for _, c := range core.Calls(fd.Body) {
			sel, ok := ast.Unparen(c.Fun).(*ast.SelectorExpr)
			if !ok || info.Selections[sel] == nil {
				continue
			}
			if core.NamedOf(info.Types[sel.X].Type) != core.PkgGts+".Location" {
				continue
			}
			n++
			switch {
			case sel.Sel.Name != method:
				bad, badPos = "a part is transformed with "+sel.Sel.Name+" instead of "+method, c.Pos()
			case !isElem(sel.X):
				bad, badPos = method+" is applied to something other than an element of the receiver", c.Pos()
			case len(c.Args) != len(params):
				bad, badPos = "wrong number of arguments", c.Pos()
			default:
				for i, a := range c.Args {
					if core.ObjOf(info, a) != params[i] {
						bad, badPos = fmt.Sprintf("argument %d of the part-wise call is not the method's own parameter", i+1), c.Pos()
					}
				}
			}
		}
		okCtor := false
		for _, rs := range core.Returns(fd.Body) {
			if len(rs.Results) == 1 {
				if c, ok := ast.Unparen(rs.Results[0]).(*ast.CallExpr); ok && core.IsCallTo(info, c, core.PkgGts+"."+tn.ctor) && c.Ellipsis.IsValid() {
					okCtor = true
				}
			}
		}
		switch {
		case n == 0:
			r.Bad("DELEGATE", fn, p.Pos(fd.Pos()), "no part is transformed")
		case bad != "":
			r.Bad("DELEGATE", fn, p.Pos(badPos), bad+": parts of a multi-part location are moved differently from single locations")
		case !okCtor:
			r.Bad("DELEGATE", fn, p.Pos(fd.Pos()), "the parts are not re-assembled with "+tn.ctor+"(parts...)")
		default:
			r.Ok("DELEGATE", fn, p.Pos(fd.Pos()), fmt.Sprintf("%d part-wise call(s) of %s with the method's own parameters, re-assembled with %s", n, method, tn.ctor))
		}
	}
}

package siblings

import (
	"go/ast"
	"go/token"

	"golang.org/x/tools/go/ast/astutil"
)

// copyProp replaces, in the canonical body of a method with a VALUE receiver,
// every read of a local that still holds a copy of a receiver field
// (`start := recv.Start`, not assigned since) by the field itself. A sibling
// that reads `recv.Start` where the other reads its unmodified copy `start`
// computes the same thing; without this pass the two spellings would count as
// a difference. The receiver of a value method is a private copy: only an
// assignment to recv or one of its fields, or taking its address, can change
// it, and a body that does either (or contains a function literal) is left
// alone. The pass is flow-sensitive along the statement structure: a copy is
// forgotten at any assignment to the local, after a compound statement that
// assigns it, and for the whole of a loop that assigns it.
func copyProp(body *ast.BlockStmt, valueRecv bool) {
	if !valueRecv {
		return
	}
	clean := true
	ast.Inspect(body, func(n ast.Node) bool {
		rooted := func(e ast.Expr) bool {
			for {
				switch x := e.(type) {
				case *ast.SelectorExpr:
					e = x.X
				case *ast.IndexExpr:
					e = x.X
				case *ast.ParenExpr:
					e = x.X
				case *ast.StarExpr:
					e = x.X
				case *ast.Ident:
					return x.Name == "recv"
				default:
					return false
				}
			}
		}
		switch x := n.(type) {
		case *ast.FuncLit, *ast.LabeledStmt, *ast.GoStmt, *ast.DeferStmt:
			clean = false
		case *ast.AssignStmt:
			for _, l := range x.Lhs {
				if rooted(l) {
					clean = false
				}
			}
		case *ast.IncDecStmt:
			if rooted(x.X) {
				clean = false
			}
		case *ast.UnaryExpr:
			if x.Op == token.AND && rooted(x.X) {
				clean = false
			}
		case *ast.RangeStmt:
			if (x.Key != nil && rooted(x.Key)) || (x.Value != nil && rooted(x.Value)) {
				clean = false
			}
		}
		return clean
	})
	if !clean {
		return
	}
	(&copyState{}).list(body.List, map[string]ast.Expr{})
}

type copyState struct{}

// assigned collects the names a statement (with everything nested in it) assigns or defines.
func assigned(n ast.Node, into map[string]bool) {
	if n == nil {
		return
	}
	ast.Inspect(n, func(m ast.Node) bool {
		mark := func(e ast.Expr) {
			if id, ok := e.(*ast.Ident); ok {
				into[id.Name] = true
			}
		}
		switch x := m.(type) {
		case *ast.AssignStmt:
			for _, l := range x.Lhs {
				mark(l)
			}
		case *ast.IncDecStmt:
			mark(x.X)
		case *ast.RangeStmt:
			if x.Key != nil {
				mark(x.Key)
			}
			if x.Value != nil {
				mark(x.Value)
			}
		case *ast.UnaryExpr:
			if x.Op == token.AND {
				mark(x.X)
			}
		case *ast.DeclStmt:
			if gd, ok := x.Decl.(*ast.GenDecl); ok {
				for _, sp := range gd.Specs {
					if vs, ok := sp.(*ast.ValueSpec); ok {
						for _, nm := range vs.Names {
							into[nm.Name] = true
						}
					}
				}
			}
		case *ast.TypeSwitchStmt:
			if as, ok := x.Assign.(*ast.AssignStmt); ok {
				for _, l := range as.Lhs {
					mark(l)
				}
			}
		}
		return true
	})
}

func cloneMap(m map[string]ast.Expr) map[string]ast.Expr {
	out := make(map[string]ast.Expr, len(m))
	for k, v := range m {
		out[k] = v
	}
	return out
}

func kill(m map[string]ast.Expr, n ast.Node) {
	names := map[string]bool{}
	assigned(n, names)
	for k := range names {
		delete(m, k)
	}
}

// subst replaces reads of copied locals inside n (an expression or a simple statement).
func subst(n ast.Node, m map[string]ast.Expr) ast.Node {
	if n == nil || len(m) == 0 {
		return n
	}
	return astutil.Apply(n, func(c *astutil.Cursor) bool {
		id, ok := c.Node().(*ast.Ident)
		if !ok {
			return true
		}
		src, has := m[id.Name]
		if !has {
			return true
		}
		switch p := c.Parent().(type) {
		case *ast.SelectorExpr:
			if c.Name() == "Sel" {
				return true
			}
		case *ast.KeyValueExpr:
			if c.Name() == "Key" {
				return true
			}
		case *ast.AssignStmt:
			if c.Name() == "Lhs" {
				return true
			}
		case *ast.IncDecStmt:
			return true
		case *ast.UnaryExpr:
			if p.Op == token.AND {
				return true
			}
		case *ast.ValueSpec:
			if c.Name() == "Names" {
				return true
			}
		case *ast.Field:
			return true
		}
		sel := src.(*ast.SelectorExpr)
		c.Replace(&ast.SelectorExpr{X: ast.NewIdent("recv"), Sel: ast.NewIdent(sel.Sel.Name)})
		return false
	}, nil)
}

func (cs *copyState) list(list []ast.Stmt, m map[string]ast.Expr) {
	for i, s := range list {
		list[i] = cs.stmt(s, m)
	}
}

// stmt rewrites s under the copies m and updates m to the state after s.
func (cs *copyState) stmt(s ast.Stmt, m map[string]ast.Expr) ast.Stmt {
	switch x := s.(type) {
	case nil:
		return nil
	case *ast.BlockStmt:
		inner := cloneMap(m)
		cs.list(x.List, inner)
		kill(m, x)
		return x
	case *ast.IfStmt:
		inner := cloneMap(m)
		if x.Init != nil {
			x.Init = cs.stmt(x.Init, inner)
		}
		x.Cond = subst(x.Cond, inner).(ast.Expr)
		cs.list(x.Body.List, cloneMap(inner))
		if x.Else != nil {
			x.Else = cs.stmt(x.Else, cloneMap(inner))
		}
		kill(m, x)
		return x
	case *ast.ForStmt:
		kill(m, x)
		inner := cloneMap(m)
		if x.Init != nil {
			x.Init = cs.stmt(x.Init, inner)
			kill(inner, x) // the init may have recorded a copy that the loop then changes
		}
		if x.Cond != nil {
			x.Cond = subst(x.Cond, inner).(ast.Expr)
		}
		if x.Post != nil {
			x.Post = cs.stmt(x.Post, cloneMap(inner))
		}
		cs.list(x.Body.List, cloneMap(inner))
		return x
	case *ast.RangeStmt:
		kill(m, x)
		x.X = subst(x.X, m).(ast.Expr)
		cs.list(x.Body.List, cloneMap(m))
		return x
	case *ast.SwitchStmt:
		inner := cloneMap(m)
		if x.Init != nil {
			x.Init = cs.stmt(x.Init, inner)
		}
		if x.Tag != nil {
			x.Tag = subst(x.Tag, inner).(ast.Expr)
		}
		for _, cc := range x.Body.List {
			cl := cc.(*ast.CaseClause)
			for i, e := range cl.List {
				cl.List[i] = subst(e, inner).(ast.Expr)
			}
			cs.list(cl.Body, cloneMap(inner))
		}
		kill(m, x)
		return x
	case *ast.TypeSwitchStmt:
		inner := cloneMap(m)
		kill(inner, x)
		for _, cc := range x.Body.List {
			cs.list(cc.(*ast.CaseClause).Body, cloneMap(inner))
		}
		kill(m, x)
		return x
	case *ast.SelectStmt, *ast.CommClause:
		kill(m, x)
		return x
	case *ast.AssignStmt:
		for i, r := range x.Rhs {
			x.Rhs[i] = subst(r, m).(ast.Expr)
		}
		for i, l := range x.Lhs {
			if _, isID := l.(*ast.Ident); !isID {
				x.Lhs[i] = subst(l, m).(ast.Expr) // an index or field on the left reads its operands
			}
		}
		kill(m, x)
		if (x.Tok == token.DEFINE || x.Tok == token.ASSIGN) && len(x.Lhs) == len(x.Rhs) {
			for i, l := range x.Lhs {
				id, ok := l.(*ast.Ident)
				sel, ok2 := x.Rhs[i].(*ast.SelectorExpr)
				if !ok || !ok2 || id.Name == "_" {
					continue
				}
				if base, ok := sel.X.(*ast.Ident); ok && base.Name == "recv" {
					m[id.Name] = sel
				}
			}
		}
		return x
	default:
		ns := subst(s, m).(ast.Stmt)
		kill(m, ns)
		return ns
	}
}

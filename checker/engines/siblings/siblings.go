// Package siblings implements E8: cross-checks between sibling implementations
// (Engler et al.; Min et al.). Two functions that the repository wrote as
// clones of one another - the same coordinate logic for Ranged and Ambiguous,
// for Joined and Ordered, for Insert and Embed - must stay clones up to a
// stated, counted set of substitutions. The comparison is made on a canonical
// form (receiver renamed, comparisons oriented, composite literals and calls
// unified, a named set of identifiers projected away), so it is a comparison
// of two live pieces of code with each other, never with a frozen text.
package siblings

import (
	"bytes"
	"fmt"
	"go/ast"
	"go/parser"
	"go/printer"
	"go/scanner"
	"go/token"
	"sort"
	"strings"

	"gtsverif/core"
)

// Pair describes one sibling relation.
type Pair struct {
	Rule      string
	Pkg       string
	A, B      string            // "Recv.Method" or "Func"
	Drop      []string          // identifiers whose statements / elements are projected away (state only one sibling has)
	Subst     map[[2]string]int // allowed token substitutions A->B with their maximal count
	From      string            // optional: compare only from the statement that defines this identifier ...
	To        string            // ... up to the first return that mentions this identifier (fragment comparison)
	BlindArgs []string          // calls to these functions are compared without their arguments
	Fold      map[string]string // selector expressions (after receiver renaming) folded to one identifier, e.g. recv.Partial -> partial
	Why       string
}

func recvIdent(fd *ast.FuncDecl) string {
	if fd.Recv != nil && len(fd.Recv.List) > 0 && len(fd.Recv.List[0].Names) > 0 {
		return fd.Recv.List[0].Names[0].Name
	}
	return ""
}

// reparse returns a private, mutable copy of the function body.
func reparse(fset *token.FileSet, fd *ast.FuncDecl) (*ast.BlockStmt, error) {
	var buf bytes.Buffer
	if err := printer.Fprint(&buf, fset, fd.Body); err != nil {
		return nil, err
	}
	src := "package x\nfunc f() " + buf.String()
	f, err := parser.ParseFile(token.NewFileSet(), "x.go", src, 0)
	if err != nil {
		return nil, err
	}
	return f.Decls[0].(*ast.FuncDecl).Body, nil
}

func mentions(n ast.Node, names map[string]bool) bool {
	found := false
	ast.Inspect(n, func(m ast.Node) bool {
		if id, ok := m.(*ast.Ident); ok && names[id.Name] {
			found = true
		}
		return !found
	})
	return found
}

// mentionsDrop: n mentions projected-away state, by identifier or as a receiver
// field that folds to one.
func (c *canon) mentionsDrop(n ast.Node) bool {
	found := false
	ast.Inspect(n, func(m ast.Node) bool {
		switch x := m.(type) {
		case *ast.Ident:
			if c.drop[x.Name] {
				found = true
			}
		case *ast.SelectorExpr:
			if id, ok := x.X.(*ast.Ident); ok && id.Name == c.recv && c.recv != "" && c.drop[c.fold["recv."+x.Sel.Name]] {
				found = true
			}
		}
		return !found
	})
	return found
}

type canon struct {
	recv  string
	drop  map[string]bool
	blind map[string]bool
	fold  map[string]string
}

// droppable: the expression IS projected-away state (an identifier of the drop
// set, or a selector / dereference rooted in one), as opposed to merely
// containing some as an element.
func (c *canon) droppable(e ast.Expr) bool {
	switch x := e.(type) {
	case *ast.Ident:
		return c.drop[x.Name]
	case *ast.SelectorExpr:
		// a receiver field that is folded to a dropped identifier (recv.Partial -> partial) is dropped state too
		if id, ok := x.X.(*ast.Ident); ok && id.Name == c.recv && c.recv != "" && c.drop[c.fold["recv."+x.Sel.Name]] {
			return true
		}
		return c.droppable(x.X)
	case *ast.ParenExpr:
		return c.droppable(x.X)
	case *ast.StarExpr:
		return c.droppable(x.X)
	case *ast.UnaryExpr:
		return c.droppable(x.X)
	case *ast.IndexExpr:
		return c.droppable(x.X)
	}
	return false
}

func (c *canon) exprs(list []ast.Expr) []ast.Expr {
	var out []ast.Expr
	for _, e := range list {
		if c.droppable(e) {
			continue
		}
		out = append(out, c.expr(e))
	}
	return out
}

func (c *canon) expr(e ast.Expr) ast.Expr {
	switch x := e.(type) {
	case *ast.Ident:
		if x.Name == c.recv && c.recv != "" {
			return ast.NewIdent("recv")
		}
		return x
	case *ast.ParenExpr:
		return &ast.ParenExpr{X: c.expr(x.X)}
	case *ast.BinaryExpr:
		l, r := c.expr(x.X), c.expr(x.Y)
		switch x.Op {
		case token.GTR:
			return &ast.BinaryExpr{X: r, Op: token.LSS, Y: l}
		case token.GEQ:
			return &ast.BinaryExpr{X: r, Op: token.LEQ, Y: l}
		}
		return &ast.BinaryExpr{X: l, Op: x.Op, Y: r}
	case *ast.UnaryExpr:
		return &ast.UnaryExpr{Op: x.Op, X: c.expr(x.X)}
	case *ast.StarExpr:
		return &ast.StarExpr{X: c.expr(x.X)}
	case *ast.SelectorExpr:
		ns := &ast.SelectorExpr{X: c.expr(x.X), Sel: x.Sel}
		if id, ok := ns.X.(*ast.Ident); ok {
			if to, ok := c.fold[id.Name+"."+x.Sel.Name]; ok {
				return ast.NewIdent(to)
			}
		}
		return ns
	case *ast.IndexExpr:
		return &ast.IndexExpr{X: c.expr(x.X), Index: c.expr(x.Index)}
	case *ast.SliceExpr:
		s := &ast.SliceExpr{X: c.expr(x.X)}
		if x.Low != nil {
			s.Low = c.expr(x.Low)
		}
		if x.High != nil {
			s.High = c.expr(x.High)
		}
		return s
	case *ast.CallExpr:
		call := &ast.CallExpr{Fun: c.expr(x.Fun), Ellipsis: x.Ellipsis}
		if id, ok := x.Fun.(*ast.Ident); ok && c.blind[id.Name] {
			call.Args = []ast.Expr{ast.NewIdent("_")}
			call.Ellipsis = token.NoPos
			return call
		}
		call.Args = c.exprs(x.Args)
		return call
	case *ast.CompositeLit:
		// T{a, b} and T(a, b) are the same construction for the comparison
		call := &ast.CallExpr{Fun: x.Type}
		for _, el := range x.Elts {
			if kv, ok := el.(*ast.KeyValueExpr); ok {
				el = kv.Value
			}
			if c.droppable(el) {
				continue
			}
			call.Args = append(call.Args, c.expr(el))
		}
		if call.Fun == nil {
			call.Fun = ast.NewIdent("lit")
		}
		return call
	case *ast.TypeAssertExpr:
		return &ast.TypeAssertExpr{X: c.expr(x.X), Type: x.Type}
	case *ast.FuncLit:
		return &ast.FuncLit{Type: x.Type, Body: c.block(x.Body)}
	}
	return e
}

func (c *canon) block(b *ast.BlockStmt) *ast.BlockStmt {
	out := &ast.BlockStmt{}
	var add func(ns ast.Stmt)
	add = func(ns ast.Stmt) {
		// `if A { ...; return } else REST` reads the same as `if A { ...; return }` followed by REST
		if is, ok := ns.(*ast.IfStmt); ok && is.Else != nil && is.Init == nil && endsInReturn(is.Body) {
			rest := is.Else
			is.Else = nil
			out.List = append(out.List, is)
			switch e := rest.(type) {
			case *ast.BlockStmt:
				for _, st := range e.List {
					add(st)
				}
			default:
				add(e)
			}
			return
		}
		out.List = append(out.List, ns)
	}
	for _, s := range b.List {
		if ns := c.stmt(s); ns != nil {
			add(ns)
		}
	}
	return out
}

func endsInReturn(b *ast.BlockStmt) bool {
	if b == nil || len(b.List) == 0 {
		return false
	}
	_, ok := b.List[len(b.List)-1].(*ast.ReturnStmt)
	return ok
}

// taglessAsIf spells a tagless switch (no init, single-condition clauses, no
// fallthrough or break) as the if / else-if chain it abbreviates; nil otherwise.
func taglessAsIf(sw *ast.SwitchStmt) *ast.IfStmt {
	if sw.Tag != nil || sw.Init != nil || len(sw.Body.List) == 0 {
		return nil
	}
	var deflt *ast.CaseClause
	var clauses []*ast.CaseClause
	plain := true
	for _, cc := range sw.Body.List {
		cl := cc.(*ast.CaseClause)
		if cl.List == nil {
			deflt = cl
		} else if len(cl.List) == 1 {
			clauses = append(clauses, cl)
		} else {
			return nil
		}
		for _, st := range cl.Body {
			ast.Inspect(st, func(n ast.Node) bool {
				switch y := n.(type) {
				case *ast.BranchStmt:
					if y.Tok == token.FALLTHROUGH || (y.Tok == token.BREAK && y.Label == nil) {
						plain = false
					}
				case *ast.ForStmt, *ast.RangeStmt, *ast.SwitchStmt, *ast.TypeSwitchStmt, *ast.SelectStmt, *ast.FuncLit:
					return false
				}
				return plain
			})
		}
	}
	if !plain || len(clauses) == 0 {
		return nil
	}
	var chain, last *ast.IfStmt
	for _, cl := range clauses {
		is := &ast.IfStmt{Cond: cl.List[0], Body: &ast.BlockStmt{List: cl.Body}}
		if chain == nil {
			chain = is
		} else {
			last.Else = is
		}
		last = is
	}
	if deflt != nil {
		last.Else = &ast.BlockStmt{List: deflt.Body}
	}
	return chain
}

func (c *canon) stmt(s ast.Stmt) ast.Stmt {
	switch x := s.(type) {
	case *ast.AssignStmt:
		if len(x.Lhs) == len(x.Rhs) {
			as := &ast.AssignStmt{Tok: x.Tok}
			for i := range x.Lhs {
				if c.droppable(x.Lhs[i]) || c.droppable(x.Rhs[i]) || c.mentionsDrop(x.Lhs[i]) {
					continue
				}
				as.Lhs = append(as.Lhs, c.expr(x.Lhs[i]))
				as.Rhs = append(as.Rhs, c.expr(x.Rhs[i]))
			}
			if len(as.Lhs) == 0 {
				return nil
			}
			return as
		}
		if c.mentionsDrop(x) {
			return nil
		}
		return &ast.AssignStmt{Lhs: c.exprs(x.Lhs), Tok: x.Tok, Rhs: c.exprs(x.Rhs)}
	case *ast.ExprStmt:
		if c.mentionsDrop(x) {
			return nil
		}
		return &ast.ExprStmt{X: c.expr(x.X)}
	case *ast.IncDecStmt:
		if c.mentionsDrop(x) {
			return nil
		}
		return &ast.IncDecStmt{X: c.expr(x.X), Tok: x.Tok}
	case *ast.ReturnStmt:
		return &ast.ReturnStmt{Results: c.exprs(x.Results)}
	case *ast.BlockStmt:
		return c.block(x)
	case *ast.IfStmt:
		if c.mentionsDrop(x.Cond) {
			return nil // a decision only the richer sibling makes
		}
		is := &ast.IfStmt{Cond: c.expr(x.Cond), Body: c.block(x.Body)}
		if x.Init != nil {
			is.Init = c.stmt(x.Init)
		}
		if x.Else != nil {
			is.Else = c.stmt(x.Else)
		}
		if len(is.Body.List) == 0 && is.Else == nil {
			return nil
		}
		return is
	case *ast.ForStmt:
		fs := &ast.ForStmt{Body: c.block(x.Body)}
		if x.Init != nil {
			fs.Init = c.stmt(x.Init)
		}
		if x.Cond != nil {
			fs.Cond = c.expr(x.Cond)
		}
		if x.Post != nil {
			fs.Post = c.stmt(x.Post)
		}
		return fs
	case *ast.RangeStmt:
		rs := &ast.RangeStmt{Tok: x.Tok, X: c.expr(x.X), Body: c.block(x.Body)}
		if x.Key != nil {
			rs.Key = c.expr(x.Key)
		}
		if x.Value != nil {
			rs.Value = c.expr(x.Value)
		}
		return rs
	case *ast.SwitchStmt:
		if chain := taglessAsIf(x); chain != nil {
			return c.stmt(chain)
		}
		ss := &ast.SwitchStmt{Body: &ast.BlockStmt{}}
		if x.Init != nil {
			ss.Init = c.stmt(x.Init)
		}
		if x.Tag != nil {
			ss.Tag = c.expr(x.Tag)
		}
		for _, cc := range x.Body.List {
			cl := cc.(*ast.CaseClause)
			ncl := &ast.CaseClause{List: c.exprs(cl.List)}
			for _, st := range cl.Body {
				if ns := c.stmt(st); ns != nil {
					ncl.Body = append(ncl.Body, ns)
				}
			}
			ss.Body.List = append(ss.Body.List, ncl)
		}
		return ss
	case *ast.DeclStmt:
		if c.mentionsDrop(x) {
			return nil
		}
		return x
	}
	return s
}

func tokens(n ast.Node) ([]string, error) {
	var buf bytes.Buffer
	if err := printer.Fprint(&buf, token.NewFileSet(), n); err != nil {
		return nil, err
	}
	var s scanner.Scanner
	fset := token.NewFileSet()
	src := buf.Bytes()
	s.Init(fset.AddFile("", fset.Base(), len(src)), src, nil, 0)
	var out []string
	for {
		_, tok, lit := s.Scan()
		if tok == token.EOF {
			break
		}
		if tok == token.SEMICOLON && lit == "\n" {
			out = append(out, ";")
			continue
		}
		if lit != "" {
			out = append(out, lit)
		} else {
			out = append(out, tok.String())
		}
	}
	return out, nil
}

// fragment narrows a block to the statements from the definition of `from`
// to the first return mentioning `to` (searching nested blocks).
func fragment(b *ast.BlockStmt, from, to string) *ast.BlockStmt {
	var found *ast.BlockStmt
	var search func(blk *ast.BlockStmt)
	search = func(blk *ast.BlockStmt) {
		if found != nil {
			return
		}
		start := -1
		for i, s := range blk.List {
			if as, ok := s.(*ast.AssignStmt); ok && as.Tok == token.DEFINE && start < 0 {
				for k, l := range as.Lhs {
					id, ok := l.(*ast.Ident)
					if !ok {
						continue
					}
					if strings.HasPrefix(from, "call:") {
						// role-based: the first definition from a call of the named constructor;
						// the fragment ends at the first return that mentions the variable defined here
						if k < len(as.Rhs) {
							if c, isCall := as.Rhs[k].(*ast.CallExpr); isCall {
								if fid, isID := c.Fun.(*ast.Ident); isID && fid.Name == from[len("call:"):] {
									start = i
									to = id.Name
								}
							}
						}
					} else if id.Name == from {
						start = i
					}
				}
			}
			if start >= 0 {
				if rs, ok := s.(*ast.ReturnStmt); ok && mentions(rs, map[string]bool{to: true}) {
					found = &ast.BlockStmt{List: blk.List[start : i+1]}
					return
				}
			}
		}
		for _, s := range blk.List {
			ast.Inspect(s, func(n ast.Node) bool {
				if nb, ok := n.(*ast.BlockStmt); ok && found == nil {
					search(nb)
					return false
				}
				return found == nil
			})
		}
	}
	search(b)
	return found
}

// Check decides one sibling pair.
func Check(p *core.Prog, r *core.Report, pr Pair) {
	key := fmt.Sprintf("%s.%s~%s", core.Short(pr.Pkg), pr.A, pr.B)
	if pr.From != "" {
		key += "|" + pr.From + ".." + pr.To
	}
	fa, fb := p.FuncDecl(pr.Pkg, pr.A), p.FuncDecl(pr.Pkg, pr.B)
	if fa == nil || fb == nil || fa.Body == nil || fb.Body == nil {
		r.Und(pr.Rule, key, "-", "anchor-unresolved: sibling function not found")
		return
	}
	r.Fn(core.Short(pr.Pkg) + "." + pr.A)
	r.Fn(core.Short(pr.Pkg) + "." + pr.B)
	drop := map[string]bool{}
	for _, d := range pr.Drop {
		drop[d] = true
	}
	blind := map[string]bool{}
	for _, d := range pr.BlindArgs {
		blind[d] = true
	}
	var toks [2][]string
	for i, fd := range []*ast.FuncDecl{fa, fb} {
		body, err := reparse(p.Fset, fd)
		if err != nil {
			r.Und(pr.Rule, key, p.Pos(fd.Pos()), "cannot re-parse the function body: "+err.Error())
			return
		}
		c := &canon{recv: recvIdent(fd), drop: drop, blind: blind, fold: pr.Fold}
		cb := c.block(body)
		if pr.From != "" {
			cb = fragment(cb, pr.From, pr.To)
			if cb == nil {
				r.Und(pr.Rule, key, p.Pos(fd.Pos()), fmt.Sprintf("no fragment from the definition of %q to a return of %q in %s", pr.From, pr.To, core.DeclName(fd)))
				return
			}
		}
		copyProp(cb, fd.Recv != nil && len(fd.Recv.List) == 1 && !isStar(fd.Recv.List[0].Type))
		alphaRename(cb, fd, pr.From != "")
		sortCommutative(cb)
		sortIndependent(cb)
		t, err := tokens(cb)
		if err != nil {
			r.Und(pr.Rule, key, p.Pos(fd.Pos()), err.Error())
			return
		}
		toks[i] = t
	}
	budget := map[[2]string]int{}
	for k, v := range pr.Subst {
		budget[k] = v
	}
	a, b := toks[0], toks[1]
	n := len(a)
	if len(b) < n {
		n = len(b)
	}
	ctx := func(t []string, i int) string {
		lo, hi := i-6, i+7
		if lo < 0 {
			lo = 0
		}
		if hi > len(t) {
			hi = len(t)
		}
		return strings.Join(t[lo:hi], " ")
	}
	for i := 0; i < n; i++ {
		if a[i] == b[i] {
			continue
		}
		k := [2]string{a[i], b[i]}
		if budget[k] > 0 {
			budget[k]--
			continue
		}
		r.Bad(pr.Rule, key, p.Pos(fa.Pos()), fmt.Sprintf("%s and %s are written as clones (%s) but differ beyond the stated substitutions: `... %s ...` versus `... %s ...`; one of the two is wrong", pr.A, pr.B, pr.Why, ctx(a, i), ctx(b, i)),
			core.DeclName(fa)+" at "+p.Pos(fa.Pos()), core.DeclName(fb)+" at "+p.Pos(fb.Pos()))
		return
	}
	if len(a) != len(b) {
		longer, nm := a, pr.A
		if len(b) > len(a) {
			longer, nm = b, pr.B
		}
		r.Bad(pr.Rule, key, p.Pos(fa.Pos()), fmt.Sprintf("%s and %s are written as clones (%s) but %s has extra code: `%s`", pr.A, pr.B, pr.Why, nm, ctx(longer, n)))
		return
	}
	var used []string
	for k, v := range pr.Subst {
		if budget[k] < v {
			used = append(used, fmt.Sprintf("%s->%s x%d", k[0], k[1], v-budget[k]))
		}
		if budget[k] > 0 {
			r.Bad(pr.Rule, key, p.Pos(fb.Pos()), fmt.Sprintf("%s and %s must differ by %s -> %s in %d place(s) but do so in only %d: one sibling now does what the other does (%s)", pr.A, pr.B, k[0], k[1], v, v-budget[k], pr.Why))
			return
		}
	}
	sort.Strings(used)
	r.Ok(pr.Rule, key, p.Pos(fa.Pos()), fmt.Sprintf("canonical forms agree (%d tokens) up to %v", len(a), used))
}

// alphaRename renames parameters and locally declared variables to L1, L2, ...
// in order of declaration, so that a rename of a local in one sibling only is
// not a difference. Drop-projected declarations are already gone, so both
// siblings number the surviving locals alike.
func alphaRename(body *ast.BlockStmt, fd *ast.FuncDecl, fragment bool) {
	names := map[string]string{}
	n := 0
	decl := func(name string) {
		if name == "_" || name == "recv" {
			return
		}
		if _, ok := names[name]; !ok {
			n++
			names[name] = fmt.Sprintf("L%d", n)
		}
	}
	if !fragment {
		for _, f := range fd.Type.Params.List {
			for _, id := range f.Names {
				decl(id.Name)
			}
		}
	}
	ast.Inspect(body, func(m ast.Node) bool {
		switch x := m.(type) {
		case *ast.AssignStmt:
			if x.Tok == token.DEFINE {
				for _, l := range x.Lhs {
					if id, ok := l.(*ast.Ident); ok {
						decl(id.Name)
					}
				}
			}
		case *ast.RangeStmt:
			if x.Tok == token.DEFINE {
				if id, ok := x.Key.(*ast.Ident); ok {
					decl(id.Name)
				}
				if id, ok := x.Value.(*ast.Ident); ok {
					decl(id.Name)
				}
			}
		case *ast.ValueSpec:
			for _, id := range x.Names {
				decl(id.Name)
			}
		}
		return true
	})
	ast.Inspect(body, func(m ast.Node) bool {
		switch x := m.(type) {
		case *ast.SelectorExpr:
			// rename only the operand, never the selected field or method
			ast.Inspect(x.X, func(k ast.Node) bool {
				if id, ok := k.(*ast.Ident); ok {
					if to, ok := names[id.Name]; ok {
						id.Name = to
					}
				}
				return true
			})
			return false
		case *ast.KeyValueExpr:
			return true
		case *ast.Ident:
			if to, ok := names[x.Name]; ok {
				x.Name = to
			}
		}
		return true
	})
}

// sortCommutative orders the operands of ==, != and of && / || chains by their
// printed form, so that `a == b` and `b == a`, `A && B` and `B && A` are one
// spelling. Operands that contain a call (other than len) keep their order:
// evaluation order could matter there.
func sortCommutative(n ast.Node) {
	render := func(e ast.Expr) string {
		var buf bytes.Buffer
		printer.Fprint(&buf, token.NewFileSet(), e)
		return buf.String()
	}
	pure := func(e ast.Expr) bool {
		ok := true
		ast.Inspect(e, func(m ast.Node) bool {
			if c, isCall := m.(*ast.CallExpr); isCall {
				if id, isID := c.Fun.(*ast.Ident); !isID || id.Name != "len" {
					ok = false
				}
			}
			return ok
		})
		return ok
	}
	var visit func(e ast.Expr) ast.Expr
	visit = func(e ast.Expr) ast.Expr {
		be, ok := e.(*ast.BinaryExpr)
		if !ok {
			return e
		}
		switch be.Op {
		case token.EQL, token.NEQ:
			if pure(be.X) && pure(be.Y) && render(be.Y) < render(be.X) {
				be.X, be.Y = be.Y, be.X
			}
		case token.LAND, token.LOR:
			var ops []ast.Expr
			var flat func(x ast.Expr)
			flat = func(x ast.Expr) {
				if b, ok := x.(*ast.BinaryExpr); ok && b.Op == be.Op {
					flat(b.X)
					flat(b.Y)
					return
				}
				ops = append(ops, x)
			}
			flat(be)
			allPure := true
			for _, o := range ops {
				if !pure(o) {
					allPure = false
				}
			}
			if allPure {
				sort.SliceStable(ops, func(i, j int) bool { return render(ops[i]) < render(ops[j]) })
				cur := ops[0]
				for _, o := range ops[1:] {
					cur = &ast.BinaryExpr{X: cur, Op: be.Op, Y: o}
				}
				nb := cur.(*ast.BinaryExpr)
				*be = *nb
			}
		}
		return be
	}
	// bottom-up: children first
	ast.Inspect(n, func(m ast.Node) bool { return true })
	var post func(m ast.Node)
	post = func(m ast.Node) {
		ast.Inspect(m, func(k ast.Node) bool {
			if k == nil || k == m {
				return true
			}
			post(k)
			return false
		})
		if e, ok := m.(ast.Expr); ok {
			visit(e)
		}
	}
	post(n)
}

// sortIndependent brings adjacent statements that commute into one canonical
// order (by printed form), in every block under n: two neighbours commute when
// neither contains a call, a return, a branch or a declaration, and the
// variables one of them assigns are not mentioned by the other. Swapping
// `if i <= start { start += n }` and `if i < end { end += n }` is then not a
// difference between siblings.
func sortIndependent(n ast.Node) {
	render := func(s ast.Stmt) string {
		var buf bytes.Buffer
		printer.Fprint(&buf, token.NewFileSet(), s)
		return buf.String()
	}
	type rw struct {
		ok     bool
		writes map[string]bool
		reads  map[string]bool
	}
	analyse := func(s ast.Stmt) rw {
		out := rw{ok: true, writes: map[string]bool{}, reads: map[string]bool{}}
		switch s.(type) {
		case *ast.AssignStmt, *ast.IfStmt, *ast.IncDecStmt:
		default:
			out.ok = false
			return out
		}
		ast.Inspect(s, func(m ast.Node) bool {
			switch x := m.(type) {
			case *ast.CallExpr, *ast.ReturnStmt, *ast.BranchStmt, *ast.DeclStmt, *ast.FuncLit, *ast.ForStmt, *ast.RangeStmt, *ast.StarExpr, *ast.IndexExpr:
				out.ok = false
			case *ast.AssignStmt:
				if x.Tok == token.DEFINE {
					out.ok = false
				}
				for _, l := range x.Lhs {
					if id, ok := l.(*ast.Ident); ok {
						out.writes[id.Name] = true
					} else {
						out.ok = false // field or element stores may alias
					}
				}
			case *ast.IncDecStmt:
				if id, ok := x.X.(*ast.Ident); ok {
					out.writes[id.Name] = true
				} else {
					out.ok = false
				}
			case *ast.Ident:
				out.reads[x.Name] = true
			}
			return out.ok
		})
		return out
	}
	commute := func(a, b rw) bool {
		if !a.ok || !b.ok {
			return false
		}
		for w := range a.writes {
			if b.reads[w] || b.writes[w] {
				return false
			}
		}
		for w := range b.writes {
			if a.reads[w] {
				return false
			}
		}
		return true
	}
	ast.Inspect(n, func(m ast.Node) bool {
		blk, ok := m.(*ast.BlockStmt)
		if !ok {
			return true
		}
		for changed, rounds := true, 0; changed && rounds < 20; rounds++ {
			changed = false
			for i := 0; i+1 < len(blk.List); i++ {
				a, b := blk.List[i], blk.List[i+1]
				if commute(analyse(a), analyse(b)) && render(b) < render(a) {
					blk.List[i], blk.List[i+1] = b, a
					changed = true
				}
			}
		}
		return true
	})
}

func isStar(e ast.Expr) bool {
	_, ok := ast.Unparen(e).(*ast.StarExpr)
	return ok
}

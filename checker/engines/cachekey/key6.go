package cachekey

import (
	"fmt"
	"go/ast"
	"go/token"
	"go/types"
	"reflect"
	"strings"

	"gtsverif/core"
)

// lossless reports whether encoding/json encodes distinct values of static
// type t to distinct texts. why names the first lossy component.
func lossless(t types.Type, seen map[types.Type]bool) (bool, string) {
	if seen[t] {
		return true, ""
	}
	seen[t] = true
	// a custom encoder decides the text: unknown
	for _, m := range []string{"MarshalJSON", "MarshalText"} {
		for _, tt := range []types.Type{t, types.NewPointer(t)} {
			if obj, _, _ := types.LookupFieldOrMethod(tt, true, nil, m); obj != nil {
				if _, isFn := obj.(*types.Func); isFn {
					return false, types.TypeString(t, nil) + " has a custom " + m
				}
			}
		}
	}
	switch u := t.Underlying().(type) {
	case *types.Basic:
		if u.Info()&(types.IsBoolean|types.IsInteger|types.IsFloat|types.IsString) != 0 {
			return true, ""
		}
		return false, "basic type " + u.Name() + " is not encodable"
	case *types.Slice:
		return lossless(u.Elem(), seen)
	case *types.Array:
		return lossless(u.Elem(), seen)
	case *types.Pointer:
		return lossless(u.Elem(), seen)
	case *types.Map:
		if b, ok := u.Key().Underlying().(*types.Basic); !ok || b.Info()&types.IsString == 0 {
			return false, "map with non-string keys"
		}
		return lossless(u.Elem(), seen)
	case *types.Struct:
		for i := 0; i < u.NumFields(); i++ {
			f := u.Field(i)
			if !f.Exported() {
				return false, "struct " + types.TypeString(t, nil) + " has unexported field " + f.Name() + ", which encoding/json omits"
			}
			tag := reflect.StructTag(u.Tag(i)).Get("json")
			if tag == "-" || strings.Contains(tag, "omitempty") {
				return false, "field " + f.Name() + " is tagged " + tag
			}
			if ok, why := lossless(f.Type(), seen); !ok {
				return false, why
			}
		}
		return true, ""
	case *types.Interface:
		return false, "interface " + types.TypeString(t, nil) + ": the dynamic type is not encoded, so values of different types (and anything in unexported fields) collapse to one text"
	}
	return false, "type " + types.TypeString(t, nil) + " is not encodable"
}

// Key6 decides KEY-6: the value of every payload tuple has a static type that
// encoding/json encodes injectively, so two different settings never give the
// same payload bytes.
func Key6(p *core.Prog, r *core.Report) {
	r.Rule("KEY-6", "the value of every payload tuple has a static type that encoding/json encodes injectively: booleans, numbers, strings and slices/arrays/pointers/string-keyed maps/fully exported untagged structs of those; no interface, no custom marshaler, no unexported field", 94)
	info := p.Info(core.PkgMain)
	for _, cm := range commands(p) {
		if cm.payload == nil {
			continue
		}
		for i, el := range cm.payload.Elts {
			tl, ok := ast.Unparen(el).(*ast.CompositeLit)
			if !ok || len(tl.Elts) != 2 {
				r.Und("KEY-6", fmt.Sprintf("%s|tuple#%d", cm.name, i), p.Pos(el.Pos()), "payload element is not a {name, value} literal")
				continue
			}
			name, _ := core.ConstString(info, tl.Elts[0])
			key := cm.name + "|tuple=" + name
			if name == "" {
				key = fmt.Sprintf("%s|tuple#%d", cm.name, i)
			}
			val := ast.Unparen(tl.Elts[1])
			t := info.TypeOf(val)
			// an explicit conversion to an interface type keeps the operand's concrete type
			for {
				cv, ok := val.(*ast.CallExpr)
				if !ok || !core.IsConversion(info, cv) || len(cv.Args) != 1 {
					break
				}
				if _, isIface := t.Underlying().(*types.Interface); !isIface {
					break
				}
				val = ast.Unparen(cv.Args[0])
				t = info.TypeOf(val)
			}
			if t == nil {
				r.Und("KEY-6", key, p.Pos(el.Pos()), "untyped value")
				continue
			}
			if ok, why := lossless(t, map[types.Type]bool{}); !ok {
				r.Bad("KEY-6", key, p.Pos(tl.Elts[1].Pos()), "the value `"+types.ExprString(tl.Elts[1])+"` of type "+types.TypeString(t, nil)+" is not encoded injectively: "+why+"; two different settings can share one cache key")
				continue
			}
			r.Ok("KEY-6", key, p.Pos(tl.Elts[1].Pos()), types.TypeString(t, nil))
		}
	}
}

// Key78 decides KEY-7 and KEY-8.
//
//	KEY-7  the value behind an option is not modified in place (sorted,
//	       element-assigned) anywhere in the command, and is re-assigned only
//	       before its first other read (defaulting): otherwise the payload and
//	       the output path see different values of the same option
//	KEY-8  a payload value is the option itself or a variable, possibly passed
//	       through whole-value functions (String(), strings.Join, the digest
//	       encoder); it is never an element, a sub-slice, a length or an
//	       arithmetic expression of an option, and a derived variable carried
//	       in the payload is the one the command goes on to use
func Key78(p *core.Prog, r *core.Report) {
	r.Rule("KEY-7", "in a cached command the value behind an option is modified (sorted in place, element-assigned, re-assigned) only before every other read of that option (normalising or defaulting it once, for the key and the output alike)", 19)
	r.Rule("KEY-8", "every payload value is an option, a variable or a whole-value function of those (String(), strings.Join, encodeToString): never an index, slice, len or arithmetic projection of an option; a derived variable carried in the payload is read again after TryCache", 94)
	info := p.Info(core.PkgMain)
	for _, cm := range commands(p) {
		if cm.payload == nil {
			continue
		}
		// ---- KEY-7
		bad := ""
		var badPos token.Pos
		isFlagDeref := func(e ast.Expr) *flagVar {
			e = ast.Unparen(e)
			if st, ok := e.(*ast.StarExpr); ok {
				if f := cm.byObj[core.ObjOf(info, st.X)]; f != nil {
					return f
				}
			}
			return nil
		}
		// readBefore: is *f read at a position before pos, outside the condition guarding the statement at pos?
		readBefore := func(f *flagVar, at ast.Node) bool {
			var guard ast.Node
			for _, m := range enclosing(cm.fd.Body, at) {
				if is, ok := m.(*ast.IfStmt); ok {
					guard = is.Cond
				}
			}
			early := false
			ast.Inspect(cm.fd.Body, func(m ast.Node) bool {
				st, ok := m.(*ast.StarExpr)
				if !ok || cm.byObj[core.ObjOf(info, st.X)] != f || st.Pos() >= at.Pos() {
					return true
				}
				if guard != nil && guard.Pos() <= st.Pos() && st.End() <= guard.End() {
					return true
				}
				early = true
				return true
			})
			return early
		}
		ast.Inspect(cm.fd.Body, func(n ast.Node) bool {
			switch x := n.(type) {
			case *ast.CallExpr:
				fn := core.Callee(info, x)
				if fn != nil && fn.Pkg() != nil && fn.Pkg().Path() == "sort" {
					for _, a := range x.Args {
						inner := a
						if cv, ok := ast.Unparen(a).(*ast.CallExpr); ok && core.IsConversion(info, cv) && len(cv.Args) == 1 {
							inner = cv.Args[0]
						}
						if f := isFlagDeref(inner); f != nil && readBefore(f, x) {
							bad, badPos = fmt.Sprintf("option %q is sorted in place (sort.%s) after it has already been read: what was computed from it before keeps the old order, what is computed after (the cache key included) sees the new one", f.name, fn.Name()), x.Pos()
						}
					}
				}
			case *ast.AssignStmt:
				for _, l := range x.Lhs {
					if ix, ok := ast.Unparen(l).(*ast.IndexExpr); ok {
						if f := isFlagDeref(ix.X); f != nil && readBefore(f, x) {
							bad, badPos = fmt.Sprintf("an element of option %q is overwritten after the option has already been read", f.name), x.Pos()
						}
					}
					if f := isFlagDeref(l); f != nil && readBefore(f, x) {
						bad, badPos = fmt.Sprintf("option %q is re-assigned after it has already been read: earlier and later uses disagree", f.name), x.Pos()
					}
				}
			}
			return true
		})
		if bad != "" {
			r.Bad("KEY-7", cm.name, p.Pos(badPos), bad)
		} else {
			r.Ok("KEY-7", cm.name, p.Pos(cm.fd.Pos()), "option values are not modified in place")
		}
		// ---- KEY-8
		mentionsFlag := func(e ast.Node) bool {
			found := false
			ast.Inspect(e, func(n ast.Node) bool {
				if id, ok := n.(*ast.Ident); ok && cm.byObj[core.ObjOf(info, id)] != nil {
					found = true
				}
				return !found
			})
			return found
		}
		for i, el := range cm.payload.Elts {
			tl, ok := ast.Unparen(el).(*ast.CompositeLit)
			if !ok || len(tl.Elts) != 2 {
				continue
			}
			name, _ := core.ConstString(info, tl.Elts[0])
			key := cm.name + "|tuple=" + name
			if name == "" {
				key = fmt.Sprintf("%s|tuple#%d", cm.name, i)
			}
			val := tl.Elts[1]
			why := ""
			ast.Inspect(val, func(n ast.Node) bool {
				switch x := n.(type) {
				case *ast.IndexExpr:
					if mentionsFlag(x.X) {
						why = "an element `" + types.ExprString(x) + "` of an option"
					}
				case *ast.SliceExpr:
					if mentionsFlag(x.X) {
						why = "a sub-slice `" + types.ExprString(x) + "` of an option"
					}
				case *ast.BinaryExpr:
					if mentionsFlag(x) {
						why = "an expression `" + types.ExprString(x) + "` computed from an option"
					}
				case *ast.CallExpr:
					if core.IsBuiltin(info, x, "len") && mentionsFlag(x) {
						why = "the length of an option"
					}
				}
				return why == ""
			})
			if why != "" {
				r.Bad("KEY-8", key, p.Pos(val.Pos()), "the payload carries "+why+" instead of the option itself: two settings that agree on that projection share one cache entry")
				continue
			}
			// a plain local (not an option pointer, not a constant): must be used again after TryCache
			if id, ok := ast.Unparen(val).(*ast.Ident); ok {
				o := core.ObjOf(info, id)
				if v, isVar := o.(*types.Var); isVar && cm.byObj[o] == nil && !v.IsField() && v.Parent() != v.Pkg().Scope() {
					after := cm.try.End()
					if cm.guard != nil {
						after = cm.guard.End()
					}
					used := false
					ast.Inspect(cm.fd.Body, func(n ast.Node) bool {
						if u, ok := n.(*ast.Ident); ok && u.Pos() > after && info.Uses[u] == o {
							used = true
						}
						return !used
					})
					isSum := false
					for _, a := range core.Assigns(info, cm.fd.Body)[o] {
						if a.RHS != nil && isDigest(info, core.Assigns(info, cm.fd.Body), a.RHS) {
							isSum = true
						}
					}
					if !used && !isSum {
						r.Bad("KEY-8", key, p.Pos(val.Pos()), "the payload carries the derived variable `"+id.Name+"`, which the command never uses again: the output is computed from something else than what the key records")
						continue
					}
				}
			}
			r.Ok("KEY-8", key, p.Pos(val.Pos()), "whole value")
		}
	}
}

package cachekey

import (
	"fmt"
	"go/ast"
	"go/types"
	"reflect"
	"strings"

	"gtsverif/core"
)

// lossless reports whether encoding/json encodes distinct values of static
// type t to distinct texts. why names the first lossy component.
func lossless(t types.Type, seen map[types.Type]bool) (bool, string) {
	if seen[t] {
		return true, ""
	}
	seen[t] = true
	// a custom encoder decides the text: unknown
	for _, m := range []string{"MarshalJSON", "MarshalText"} {
		for _, tt := range []types.Type{t, types.NewPointer(t)} {
			if obj, _, _ := types.LookupFieldOrMethod(tt, true, nil, m); obj != nil {
				if _, isFn := obj.(*types.Func); isFn {
					return false, types.TypeString(t, nil) + " has a custom " + m
				}
			}
		}
	}
	switch u := t.Underlying().(type) {
	case *types.Basic:
		if u.Info()&(types.IsBoolean|types.IsInteger|types.IsFloat|types.IsString) != 0 {
			return true, ""
		}
		return false, "basic type " + u.Name() + " is not encodable"
	case *types.Slice:
		return lossless(u.Elem(), seen)
	case *types.Array:
		return lossless(u.Elem(), seen)
	case *types.Pointer:
		return lossless(u.Elem(), seen)
	case *types.Map:
		if b, ok := u.Key().Underlying().(*types.Basic); !ok || b.Info()&types.IsString == 0 {
			return false, "map with non-string keys"
		}
		return lossless(u.Elem(), seen)
	case *types.Struct:
		for i := 0; i < u.NumFields(); i++ {
			f := u.Field(i)
			if !f.Exported() {
				return false, "struct " + types.TypeString(t, nil) + " has unexported field " + f.Name() + ", which encoding/json omits"
			}
			tag := reflect.StructTag(u.Tag(i)).Get("json")
			if tag == "-" || strings.Contains(tag, "omitempty") {
				return false, "field " + f.Name() + " is tagged " + tag
			}
			if ok, why := lossless(f.Type(), seen); !ok {
				return false, why
			}
		}
		return true, ""
	case *types.Interface:
		return false, "interface " + types.TypeString(t, nil) + ": the dynamic type is not encoded, so values of different types (and anything in unexported fields) collapse to one text"
	}
	return false, "type " + types.TypeString(t, nil) + " is not encodable"
}

// Key6 decides KEY-6: the value of every payload tuple has a static type that
// encoding/json encodes injectively, so two different settings never give the
// same payload bytes.
func Key6(p *core.Prog, r *core.Report) {
	r.Rule("KEY-6", "the value of every payload tuple has a static type that encoding/json encodes injectively: booleans, numbers, strings and slices/arrays/pointers/string-keyed maps/fully exported untagged structs of those; no interface, no custom marshaler, no unexported field", 94)
	info := p.Info(core.PkgMain)
	for _, cm := range commands(p) {
		if cm.payload == nil {
			continue
		}
		for i, el := range cm.payload.Elts {
			tl, ok := ast.Unparen(el).(*ast.CompositeLit)
			if !ok || len(tl.Elts) != 2 {
				r.Und("KEY-6", fmt.Sprintf("%s|tuple#%d", cm.name, i), p.Pos(el.Pos()), "payload element is not a {name, value} literal")
				continue
			}
			name, _ := core.ConstString(info, tl.Elts[0])
			key := cm.name + "|tuple=" + name
			if name == "" {
				key = fmt.Sprintf("%s|tuple#%d", cm.name, i)
			}
			val := ast.Unparen(tl.Elts[1])
			t := info.TypeOf(val)
			// an explicit conversion to an interface type keeps the operand's concrete type
			for {
				cv, ok := val.(*ast.CallExpr)
				if !ok || !core.IsConversion(info, cv) || len(cv.Args) != 1 {
					break
				}
				if _, isIface := t.Underlying().(*types.Interface); !isIface {
					break
				}
				val = ast.Unparen(cv.Args[0])
				t = info.TypeOf(val)
			}
			if t == nil {
				r.Und("KEY-6", key, p.Pos(el.Pos()), "untyped value")
				continue
			}
			if ok, why := lossless(t, map[types.Type]bool{}); !ok {
				r.Bad("KEY-6", key, p.Pos(tl.Elts[1].Pos()), "the value `"+types.ExprString(tl.Elts[1])+"` of type "+types.TypeString(t, nil)+" is not encoded injectively: "+why+"; two different settings can share one cache key")
				continue
			}
			r.Ok("KEY-6", key, p.Pos(tl.Elts[1].Pos()), types.TypeString(t, nil))
		}
	}
}

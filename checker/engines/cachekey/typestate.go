package cachekey

import (
	"fmt"
	"go/ast"
	"go/token"
	"go/types"

	"golang.org/x/tools/go/cfg"

	"gtsverif/core"
)

// fieldSel reports whether e is <recv>.<field> for the given receiver object.
func fieldSel(info *types.Info, e ast.Expr, recv types.Object, field string) bool {
	sel, ok := ast.Unparen(e).(*ast.SelectorExpr)
	if !ok || sel.Sel.Name != field {
		return false
	}
	return core.ObjOf(info, sel.X) == recv && recv != nil
}

func recvObj(info *types.Info, fd *ast.FuncDecl) types.Object {
	if fd.Recv == nil || len(fd.Recv.List) == 0 || len(fd.Recv.List[0].Names) == 0 {
		return nil
	}
	return info.Defs[fd.Recv.List[0].Names[0]]
}

func paramObj(info *types.Info, fd *ast.FuncDecl, i int) types.Object {
	k := 0
	for _, f := range fd.Type.Params.List {
		for _, n := range f.Names {
			if k == i {
				return info.Defs[n]
			}
			k++
		}
	}
	return nil
}

func isSeekStart(info *types.Info, c *ast.CallExpr) bool {
	if !core.IsCallTo(info, c, "os.File.Seek") || len(c.Args) != 2 {
		return false
	}
	off, ok1 := core.ConstInt(info, c.Args[0])
	wh, ok2 := core.ConstInt(info, c.Args[1])
	return ok1 && ok2 && off == 0 && wh == 0
}

func methodRecv(c *ast.CallExpr) ast.Expr {
	if sel, ok := ast.Unparen(c.Fun).(*ast.SelectorExpr); ok {
		return sel.X
	}
	return nil
}

// TryCacheRules decides KEY-5 (digest discipline and rewind) and REPLAY.
func TryCacheRules(p *core.Prog, r *core.Report) {
	r.Rule("KEY-5", "in TryCache: the root digest is Sum after Reset+Copy(h, input) and nothing else; the argument digest is Sum after Reset+Write(data) and nothing else; the same two digests key Open and CreateLevel; every path from the hashing copy to a return rewinds the input; a spooled stdin is rewound before it is hashed; `true` is returned only after the replay", 6)
	info := p.Info(core.PkgMain)
	fd := p.FuncDecl(core.PkgMain, "ioDelegate.TryCache")
	if fd == nil || fd.Body == nil {
		r.Und("KEY-5", "main.ioDelegate.TryCache|anchor", "-", "anchor-unresolved: (*ioDelegate).TryCache not found")
		return
	}
	r.Fn("main.ioDelegate.TryCache")
	fn := "main.ioDelegate.TryCache"
	d, h, data := recvObj(info, fd), paramObj(info, fd, 0), paramObj(info, fd, 1)
	asg := core.Assigns(info, fd.Body)
	fl := core.NewFlow(info, fd.Body)

	const (
		evNone = iota
		evReset
		evCopyIn
		evWriteData
		evOtherWrite
		evSum
	)
	classify := func(c *ast.CallExpr) int {
		id := core.FuncID(core.Callee(info, c))
		rx := methodRecv(c)
		onH := rx != nil && core.ObjOf(info, rx) == h
		switch {
		case id == "hash.Hash.Reset" && onH:
			return evReset
		case id == "hash.Hash.Sum" && onH:
			return evSum
		case id == "io.Writer.Write" && onH:
			if len(c.Args) == 1 && core.ObjOf(info, c.Args[0]) == data {
				return evWriteData
			}
			return evOtherWrite
		case id == "io.Copy" && len(c.Args) == 2 && core.ObjOf(info, c.Args[0]) == h:
			if fieldSel(info, c.Args[1], d, "infile") {
				return evCopyIn
			}
			return evOtherWrite
		}
		// h escaping into another call before the sums counts as a write
		for _, a := range c.Args {
			if core.ObjOf(info, a) == h && id != "io.Copy" {
				return evOtherWrite
			}
		}
		return evNone
	}

	// the two Sum calls, identified from cache.Open's arguments
	var open, create *ast.CallExpr
	for _, c := range core.Calls(fd.Body) {
		if core.IsCallTo(info, c, core.PkgCache+".Open") {
			open = c
		}
		if core.IsCallTo(info, c, core.PkgCache+".CreateLevel", core.PkgCache+".Create") {
			create = c
		}
	}
	if open == nil || len(open.Args) != 4 {
		r.Und("KEY-5", fn+"|open", p.Pos(fd.Pos()), "no call of cache.Open(dir, h, rsum, dsum) found")
		return
	}
	sumOf := func(e ast.Expr) *ast.CallExpr {
		c, _ := core.Origin(info, asg, e).(*ast.CallExpr)
		if c != nil && classify(c) == evSum {
			return c
		}
		return nil
	}
	check := func(which string, arg ast.Expr, want int, wantTxt string) {
		key := fn + "|" + which
		s := sumOf(arg)
		if s == nil {
			r.Bad("KEY-5", key, p.Pos(arg.Pos()), which+" passed to cache.Open is not the result of h.Sum")
			return
		}
		// state: 0 no reset yet, 1 clean after reset, 2 expected content written once, 3 dirty
		bad := ""
		reached := false
		core.Scan(fl, fl.Entry(), 0, core.Stepper[int]{
			Node: func(st int, n ast.Node) (int, bool) {
				for _, c := range core.NodeCalls(n) {
					if c == s {
						reached = true
						if st != 2 {
							bad = map[int]string{0: "no Reset before it", 1: "nothing hashed after Reset", 3: "other bytes are hashed into it, or the content is hashed twice"}[st]
						}
						return st, true
					}
					switch classify(c) {
					case evReset:
						st = 1
					case want:
						if st == 1 {
							st = 2
						} else {
							st = 3
						}
					case evCopyIn, evWriteData, evOtherWrite:
						st = 3
					}
				}
				return st, false
			},
		})
		switch {
		case !reached:
			r.Und("KEY-5", key, p.Pos(s.Pos()), "the Sum call is unreachable in the control-flow graph")
		case bad != "":
			r.Bad("KEY-5", key, p.Pos(s.Pos()), fmt.Sprintf("%s is not exactly the digest of %s: %s", which, wantTxt, bad))
		default:
			r.Ok("KEY-5", key, p.Pos(s.Pos()), fmt.Sprintf("on every path %s = Sum after Reset and exactly %s", which, wantTxt))
		}
	}
	check("root-digest", open.Args[2], evCopyIn, "io.Copy(h, d.infile)")
	check("data-digest", open.Args[3], evWriteData, "h.Write(data)")
	if create != nil && len(create.Args) >= 4 {
		same := core.ObjOf(info, create.Args[2]) == core.ObjOf(info, open.Args[2]) && core.ObjOf(info, create.Args[3]) == core.ObjOf(info, open.Args[3]) &&
			core.ObjOf(info, create.Args[2]) != nil && core.ObjOf(info, create.Args[3]) != nil &&
			core.ObjOf(info, create.Args[2]) != core.ObjOf(info, create.Args[3])
		if same {
			r.Ok("KEY-5", fn+"|same-key", p.Pos(create.Pos()), "Open and CreateLevel are keyed with the same (root, data) digests in the same order")
		} else {
			r.Bad("KEY-5", fn+"|same-key", p.Pos(create.Pos()), "the entry is created under a different (root, data) key than it is looked up with")
		}
	} else {
		r.Und("KEY-5", fn+"|same-key", p.Pos(fd.Pos()), "no cache.CreateLevel/Create call found")
	}

	// rewind after hashing
	var copyIn *ast.CallExpr
	for _, c := range core.Calls(fd.Body) {
		if classify(c) == evCopyIn {
			copyIn = c
		}
	}
	if copyIn == nil {
		r.Und("KEY-5", fn+"|rewind", p.Pos(fd.Pos()), "no io.Copy(h, d.infile) found")
	} else {
		rewinds := func(n ast.Node) bool {
			for _, c := range core.NodeCalls(n) {
				if isSeekStart(info, c) && fieldSel(info, methodRecv(c), d, "infile") {
					return true
				}
			}
			return false
		}
		bad := fl.MustPass(fl.Find(copyIn), rewinds)
		if len(bad) == 0 {
			r.Ok("KEY-5", fn+"|rewind", p.Pos(copyIn.Pos()), "every path from the hashing copy to a return passes d.infile.Seek(0, io.SeekStart)")
		} else {
			var path []string
			for _, b := range bad {
				path = append(path, "exit at "+p.Pos(b.Pos()))
			}
			r.Bad("KEY-5", fn+"|rewind", p.Pos(copyIn.Pos()), "after hashing the input a return is reachable without rewinding it: the command then scans an empty input while --no-cache scans the whole one", path...)
		}
		// spooled stdin rewound before hashing
		type st struct{ dirtyVar, dirtyIn bool }
		var spool types.Object
		violated := false
		core.Scan(fl, fl.Entry(), st{}, core.Stepper[st]{
			Node: func(s st, n ast.Node) (st, bool) {
				for _, c := range core.NodeCalls(n) {
					id := core.FuncID(core.Callee(info, c))
					if id == "io.Copy" && len(c.Args) == 2 {
						if o := core.ObjOf(info, c.Args[0]); o != nil && o != h && core.NamedOf(o.Type()) == "os.File" {
							spool = o
							s.dirtyVar = true
						}
					}
					if isSeekStart(info, c) && spool != nil && core.ObjOf(info, methodRecv(c)) == spool {
						s.dirtyVar = false
					}
					if c == copyIn && s.dirtyIn {
						violated = true
					}
				}
				if as, ok := n.(*ast.AssignStmt); ok && len(as.Lhs) == 1 && len(as.Rhs) == 1 && fieldSel(info, as.Lhs[0], d, "infile") {
					if core.ObjOf(info, as.Rhs[0]) == spool && spool != nil {
						s.dirtyIn = s.dirtyVar
					}
				}
				return s, false
			},
		})
		if spool == nil {
			r.Note("KEY-5", fn+"|spool-rewind", p.Pos(fd.Pos()), "no spooling of the input into a temporary file")
		} else if violated {
			r.Bad("KEY-5", fn+"|spool-rewind", p.Pos(copyIn.Pos()), "standard input is spooled into a temporary file that is hashed without being rewound: every piped input gets the digest of the empty string and shares one cache entry")
		} else {
			r.Ok("KEY-5", fn+"|spool-rewind", p.Pos(copyIn.Pos()), "the spooled copy of standard input is rewound before it becomes the hashed input")
		}
	}

	// replay only on the err == nil side of Open; `true` only after replay
	r.Rule("REPLAY", "the copy from the cache entry to the output is reachable only on the err == nil side of cache.Open, reads the opened entry, writes the delegate's output, and TryCache reports a hit only after it", 2)
	var fObj, errObj types.Object
	for o, as := range asg {
		for _, a := range as {
			if a.Call == open && a.Idx == 0 {
				fObj = o
			}
			if a.Call == open && a.Idx == 1 {
				errObj = o
			}
		}
	}
	var replay *ast.CallExpr
	for _, c := range core.Calls(fd.Body) {
		if core.IsCallTo(info, c, "io.Copy") && len(c.Args) == 2 && core.ObjOf(info, c.Args[1]) == fObj && fObj != nil {
			replay = c
		}
	}
	if replay == nil || errObj == nil {
		r.Und("REPLAY", fn+"|replay", p.Pos(open.Pos()), "no io.Copy(<output>, <opened entry>) found")
		return
	}
	if !fieldSel(info, replay.Args[0], d, "outfile") {
		r.Bad("REPLAY", fn+"|replay-dst", p.Pos(replay.Pos()), "the cached bytes are not copied to the delegate's output file")
	} else {
		r.Ok("REPLAY", fn+"|replay-dst", p.Pos(replay.Pos()), "cached bytes go to d.outfile")
	}
	onErrSide := false
	core.Scan(fl, fl.Find(open), false, core.Stepper[bool]{
		Node: func(s bool, n ast.Node) (bool, bool) {
			for _, c := range core.NodeCalls(n) {
				if c == replay && s {
					onErrSide = true
				}
			}
			return s, false
		},
		Edge: func(s bool, cond ast.Expr, taken bool) bool {
			core.Facts(cond, taken, func(atom ast.Expr, val bool) {
				be, ok := atom.(*ast.BinaryExpr)
				if !ok || core.ObjOf(info, be.X) != errObj || !core.IsNil(info, be.Y) {
					return
				}
				if (be.Op == token.NEQ && val) || (be.Op == token.EQL && !val) {
					s = true
				}
			})
			return s
		},
	})
	guarded := false
	cu := core.ClassifyErr(info, fd.Body, open)
	if cu.If != nil && cu.Err == errObj {
		guarded = true
	}
	switch {
	case onErrSide:
		r.Bad("REPLAY", fn+"|replay-valid", p.Pos(replay.Pos()), "the entry is replayed on the path where cache.Open reported an error: an entry that failed validation reaches the output")
	case !guarded:
		r.Bad("REPLAY", fn+"|replay-valid", p.Pos(replay.Pos()), "cache.Open's error is not tested before the entry is replayed")
	default:
		r.Ok("REPLAY", fn+"|replay-valid", p.Pos(replay.Pos()), "replay is reachable only after cache.Open returned a nil error")
	}
	// `return true` only after the replay
	for _, rs := range core.Returns(fd.Body) {
		if len(rs.Results) != 2 {
			continue
		}
		tv := info.Types[rs.Results[0]]
		if tv.Value == nil || tv.Value.String() != "true" {
			continue
		}
		if fl.Dominates(fl.Find(replay), fl.Find(rs)) {
			r.Ok("KEY-5", fn+"|hit-after-replay", p.Pos(rs.Pos()), "a hit is reported only after the replay copy")
		} else {
			r.Bad("KEY-5", fn+"|hit-after-replay", p.Pos(rs.Pos()), "TryCache can report a hit on a path that did not replay the entry: the command exits with empty output")
		}
	}
}

// Tee decides TEE on (*ioDelegate).Write.
func Tee(p *core.Prog, r *core.Report) {
	r.Rule("TEE", "(*ioDelegate).Write hands the cache and the output the very parameter p, guards the cache write only by `d.cache != nil`, writes the output on every non-error path, and returns a failure of either", 4)
	info := p.Info(core.PkgMain)
	fd := p.FuncDecl(core.PkgMain, "ioDelegate.Write")
	fn := "main.ioDelegate.Write"
	if fd == nil || fd.Body == nil {
		r.Und("TEE", fn+"|anchor", "-", "anchor-unresolved: (*ioDelegate).Write not found")
		return
	}
	r.Fn(fn)
	d, pp := recvObj(info, fd), paramObj(info, fd, 0)
	var cw, ow *ast.CallExpr
	for _, c := range core.Calls(fd.Body) {
		rx := methodRecv(c)
		if rx == nil {
			continue
		}
		if core.IsCallTo(info, c, core.PkgCache+".File.Write") && fieldSel(info, rx, d, "cache") {
			cw = c
		}
		if core.IsCallTo(info, c, "os.File.Write") && fieldSel(info, rx, d, "outfile") {
			ow = c
		}
	}
	if cw == nil || ow == nil {
		r.Bad("TEE", fn+"|both", p.Pos(fd.Pos()), fmt.Sprintf("the tee is incomplete (cache write present: %v, output write present: %v)", cw != nil, ow != nil))
		return
	}
	for _, w := range []struct {
		c    *ast.CallExpr
		name string
	}{{cw, "cache"}, {ow, "output"}} {
		if len(w.c.Args) == 1 && core.ObjOf(info, w.c.Args[0]) == pp && pp != nil {
			r.Ok("TEE", fn+"|same-bytes-"+w.name, p.Pos(w.c.Pos()), "receives the parameter p itself")
		} else {
			r.Bad("TEE", fn+"|same-bytes-"+w.name, p.Pos(w.c.Pos()), "the "+w.name+" does not receive exactly the bytes given to Write: cache and output diverge")
		}
		cu := core.ClassifyErr(info, fd.Body, w.c)
		switch cu.Kind {
		case "returned", "if-return", "define-acc", "accumulate":
			r.Ok("TEE", fn+"|error-"+w.name, p.Pos(w.c.Pos()), "failure is returned ("+cu.Kind+")")
		default:
			r.Bad("TEE", fn+"|error-"+w.name, p.Pos(w.c.Pos()), "a failed "+w.name+" write is not returned ("+cu.Kind+" "+cu.Why+"): a short cache entry can be finalised")
		}
	}
	// guard of the cache write
	par := core.Parents(fd.Body)
	nIf, okGuard := 0, false
	for m := ast.Node(cw); m != nil; m = par[m] {
		if is, ok := m.(*ast.IfStmt); ok && is.Body.Pos() <= cw.Pos() && cw.End() <= is.Body.End() {
			nIf++
			if be, ok := ast.Unparen(is.Cond).(*ast.BinaryExpr); ok && be.Op == token.NEQ && fieldSel(info, be.X, d, "cache") && core.IsNil(info, be.Y) {
				okGuard = true
			}
		}
	}
	if nIf == 1 && okGuard {
		r.Ok("TEE", fn+"|cache-guard", p.Pos(cw.Pos()), "cache write guarded by `d.cache != nil` only")
	} else {
		r.Bad("TEE", fn+"|cache-guard", p.Pos(cw.Pos()), "the cache write is skipped under a condition other than `d.cache == nil`: the entry misses bytes the output received")
	}
	// output write on every path except the cache-error return
	fl := core.NewFlow(info, fd.Body)
	cu := core.ClassifyErr(info, fd.Body, cw)
	missing := false
	core.Scan(fl, fl.Entry(), false, core.Stepper[bool]{
		Node: func(s bool, n ast.Node) (bool, bool) {
			for _, c := range core.NodeCalls(n) {
				if c == ow {
					s = true
				}
			}
			return s, false
		},
		Exit: func(s bool, b *cfg.Block, last ast.Node) {
			if s {
				return
			}
			if cu.If != nil && last != nil && cu.If.Body.Pos() <= last.Pos() && last.End() <= cu.If.Body.End() {
				return
			}
			missing = true
		},
	})
	if missing {
		r.Bad("TEE", fn+"|output-always", p.Pos(ow.Pos()), "a path returns without writing the output although the cache write did not fail")
	} else {
		r.Ok("TEE", fn+"|output-always", p.Pos(ow.Pos()), "every path that does not return a cache error writes the output")
	}
}

// Commit decides COMMIT (a) on (*ioDelegate).Close and (b) on every command.
func Commit(p *core.Prog, r *core.Report) {
	r.Rule("COMMIT", "(a) in (*ioDelegate).Close every path that closes the cache entry without removing it has taken the true side of a boolean field whose only writer is a method that sets it to true; (b) in every cached command each path from a call of that method reaches only `return nil`", 20)
	info := p.Info(core.PkgMain)
	fd := p.FuncDecl(core.PkgMain, "ioDelegate.Close")
	fn := "main.ioDelegate.Close"
	if fd == nil || fd.Body == nil {
		r.Und("COMMIT", fn+"|anchor", "-", "anchor-unresolved: (*ioDelegate).Close not found")
		return
	}
	r.Fn(fn)
	d := recvObj(info, fd)
	// the commit field and method: a method whose body is exactly `recv.F = true`
	var commitField *types.Var
	var commitMethod *types.Func
	for _, m := range p.FuncDecls(core.PkgMain) {
		if core.RecvName(m) != "ioDelegate" || m.Body == nil || len(m.Body.List) != 1 {
			continue
		}
		as, ok := m.Body.List[0].(*ast.AssignStmt)
		if !ok || len(as.Lhs) != 1 || len(as.Rhs) != 1 {
			continue
		}
		sel, ok := as.Lhs[0].(*ast.SelectorExpr)
		if !ok || core.ObjOf(info, sel.X) != recvObj(info, m) {
			continue
		}
		if tv := info.Types[as.Rhs[0]]; tv.Value == nil || tv.Value.String() != "true" {
			continue
		}
		if f, ok := info.Uses[sel.Sel].(*types.Var); ok && f.IsField() {
			commitField = f
			commitMethod, _ = info.Defs[m.Name].(*types.Func)
		}
	}
	if commitField == nil {
		r.Bad("COMMIT", fn+"|finalise", p.Pos(fd.Pos()), "the cache entry is finalised on every exit: there is no success flag, so a command that fails half way commits an entry and the next identical run replays it and exits 0")
		return
	}
	// single writer
	writers := 0
	for _, m := range p.FuncDecls(core.PkgMain) {
		if m.Body == nil {
			continue
		}
		ast.Inspect(m.Body, func(n ast.Node) bool {
			switch x := n.(type) {
			case *ast.AssignStmt:
				for _, l := range x.Lhs {
					if sel, ok := ast.Unparen(l).(*ast.SelectorExpr); ok && info.Uses[sel.Sel] == commitField {
						writers++
					}
				}
			case *ast.UnaryExpr:
				if x.Op == token.AND {
					if sel, ok := ast.Unparen(x.X).(*ast.SelectorExpr); ok && info.Uses[sel.Sel] == commitField {
						writers += 2
					}
				}
			case *ast.CompositeLit:
				if core.NamedOf(info.Types[x].Type) == core.PkgMain+".ioDelegate" {
					// positional or keyed initialisation with a non-false value counts as a writer
					st, _ := info.Types[x].Type.Underlying().(*types.Struct)
					for i, el := range x.Elts {
						var val ast.Expr = el
						var fld *types.Var
						if kv, ok := el.(*ast.KeyValueExpr); ok {
							val = kv.Value
							fld, _ = info.Uses[kv.Key.(*ast.Ident)].(*types.Var)
						} else if st != nil && i < st.NumFields() {
							fld = st.Field(i)
						}
						if fld == commitField {
							if tv := info.Types[val]; tv.Value == nil || tv.Value.String() != "false" {
								writers++
							}
						}
					}
				}
			}
			return true
		})
	}
	if writers != 1 {
		r.Bad("COMMIT", fn+"|single-writer", p.Pos(fd.Pos()), fmt.Sprintf("the success flag %s has %d writers; only the commit method may set it", commitField.Name(), writers))
	} else {
		r.Ok("COMMIT", fn+"|single-writer", p.Pos(fd.Pos()), fmt.Sprintf("field %s is written only by method %s", commitField.Name(), commitMethod.Name()))
	}
	// (a) paths in Close
	fl := core.NewFlow(info, fd.Body)
	type st struct{ closed, removed, committed bool }
	var closeCall *ast.CallExpr
	for _, c := range core.Calls(fd.Body) {
		if core.IsCallTo(info, c, core.PkgCache+".File.Close") && fieldSel(info, methodRecv(c), d, "cache") {
			closeCall = c
		}
	}
	if closeCall == nil {
		r.Und("COMMIT", fn+"|finalise", p.Pos(fd.Pos()), "no d.cache.Close() call found")
	} else {
		isRemove := func(c *ast.CallExpr) bool {
			if !core.IsCallTo(info, c, "os.Remove") || len(c.Args) != 1 {
				return false
			}
			nc, ok := ast.Unparen(c.Args[0]).(*ast.CallExpr)
			return ok && core.IsCallTo(info, nc, core.PkgCache+".File.Name") && fieldSel(info, methodRecv(nc), d, "cache")
		}
		bad := false
		core.Scan(fl, fl.Entry(), st{}, core.Stepper[st]{
			Node: func(s st, n ast.Node) (st, bool) {
				if _, isDefer := n.(*ast.DeferStmt); isDefer {
					return s, false
				}
				for _, c := range core.NodeCalls(n) {
					if c == closeCall {
						s.closed = true
					}
					if isRemove(c) {
						s.removed = true
					}
				}
				return s, false
			},
			Edge: func(s st, cond ast.Expr, taken bool) st {
				core.Facts(cond, taken, func(atom ast.Expr, val bool) {
					if sel, ok := atom.(*ast.SelectorExpr); ok && info.Uses[sel.Sel] == commitField && core.ObjOf(info, sel.X) == d && val {
						s.committed = true
					}
				})
				return s
			},
			Exit: func(s st, b *cfg.Block, last ast.Node) {
				if s.closed && !s.removed && !s.committed {
					bad = true
				}
			},
		})
		if bad {
			r.Bad("COMMIT", fn+"|finalise", p.Pos(closeCall.Pos()), "a path finalises the cache entry (Close without Remove) without having seen the success flag set")
		} else {
			r.Ok("COMMIT", fn+"|finalise", p.Pos(closeCall.Pos()), "an entry survives Close only on paths where the success flag is true")
		}
	}
	// (b) commands
	for _, cm := range commands(p) {
		nCommit := 0
		cfl := core.NewFlow(info, cm.fd.Body)
		for _, c := range core.Calls(cm.fd.Body) {
			if core.Callee(info, c) != commitMethod || commitMethod == nil {
				continue
			}
			nCommit++
			key := fmt.Sprintf("%s|commit#%d", cm.name, nCommit)
			loc := cfl.Find(c)
			if !loc.Valid() {
				r.Und("COMMIT", key, p.Pos(c.Pos()), "commit call not in the control-flow graph (inside a closure or defer)")
				continue
			}
			var offending []string
			core.Scan(cfl, loc, 0, core.Stepper[int]{
				Node: func(s int, n ast.Node) (int, bool) { return s, false },
				Exit: func(s int, b *cfg.Block, last ast.Node) {
					rs, ok := last.(*ast.ReturnStmt)
					if !ok {
						offending = append(offending, "function end")
						return
					}
					if len(rs.Results) != 1 || !core.IsNil(info, rs.Results[0]) {
						offending = append(offending, "return at "+p.Pos(rs.Pos()))
					}
				},
			})
			if len(offending) > 0 {
				r.Bad("COMMIT", key, p.Pos(c.Pos()), "after committing, the command can still return an error: the failed run leaves an entry that makes a later identical run succeed", offending...)
			} else {
				r.Ok("COMMIT", key, p.Pos(c.Pos()), "every path from the commit reaches only `return nil`")
			}
		}
		if nCommit == 0 {
			r.Note("COMMIT", cm.name+"|never-commits", p.Pos(cm.fd.Pos()), "command never commits: it is transparent but never cached")
		}
		// a deferred or closure commit would escape rule (b)
		ast.Inspect(cm.fd.Body, func(n ast.Node) bool {
			switch x := n.(type) {
			case *ast.DeferStmt:
				if core.Callee(info, x.Call) == commitMethod {
					r.Bad("COMMIT", cm.name+"|deferred-commit", p.Pos(x.Pos()), "commit is deferred: it runs on error returns too")
				}
			case *ast.FuncLit:
				for _, c := range core.Calls(x.Body) {
					if core.Callee(info, c) == commitMethod {
						r.Und("COMMIT", cm.name+"|closure-commit", p.Pos(c.Pos()), "commit inside a function literal: the paths after it are not analysed")
					}
				}
			}
			return true
		})
	}
	// commit must not be called from anywhere else (e.g. from TryCache or Close)
	for _, m := range p.FuncDecls(core.PkgMain) {
		if m.Body == nil {
			continue
		}
		isCmd := false
		for _, cm := range commands(p) {
			if cm.fd == m {
				isCmd = true
			}
		}
		if isCmd {
			continue
		}
		for _, c := range core.Calls(m.Body) {
			if commitMethod != nil && core.Callee(info, c) == commitMethod {
				r.Bad("COMMIT", "main."+core.DeclName(m)+"|stray-commit", p.Pos(c.Pos()), "the commit method is called outside a command's success path")
			}
		}
	}
}

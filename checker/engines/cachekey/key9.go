package cachekey

import (
	"fmt"
	"go/ast"
	"go/token"
	"go/types"
	"strings"

	"gtsverif/core"
)

// Key9 decides KEY-9 (DIGEST-RAW): the digest that stands for a secondary
// input in the cache key is taken over the input as given - the bytes of the
// file the command opens, or the bytes of the literal argument - never over
// values computed from it. A digest of derived values (the residues of the
// parsed records, say) is lossy: two inputs that differ only in what the
// derivation drops (record boundaries, descriptions, features) share a key.
func Key9(p *core.Prog, r *core.Report) {
	r.Rule("KEY-9", "in a cached command everything fed into the hash object before the payload is built is the secondary input as given: a file returned by os.Open (through attach/io.Copy) or the bytes of an option string ([]byte(*flag)); feeding the hash values derived from parsed records makes the digest lossy, so different inputs share one cache entry", 6)
	info := p.Info(core.PkgMain)
	isHash := func(o types.Object) bool {
		return o != nil && core.NamedOf(o.Type()) == "hash.Hash"
	}
	for _, cm := range commands(p) {
		if cm.payload == nil {
			continue
		}
		asg := core.Assigns(info, cm.fd.Body)
		flagOf := func(e ast.Expr) *flagVar {
			var found *flagVar
			ast.Inspect(e, func(n ast.Node) bool {
				if id, ok := n.(*ast.Ident); ok {
					if f := cm.byObj[info.Uses[id]]; f != nil {
						found = f
					}
				}
				return found == nil
			})
			return found
		}
		// raw: a file opened from an option, or the bytes of an option string
		var raw func(e ast.Expr, depth int) (bool, string)
		raw = func(e ast.Expr, depth int) (bool, string) {
			e = ast.Unparen(core.Origin(info, asg, e))
			if depth > 4 {
				return false, "too deep"
			}
			switch x := e.(type) {
			case *ast.CallExpr:
				if core.IsConversion(info, x) && len(x.Args) == 1 {
					if f := flagOf(x.Args[0]); f != nil {
						if _, isStar := ast.Unparen(x.Args[0]).(*ast.StarExpr); isStar {
							return true, "the bytes of option " + f.name
						}
					}
					return raw(x.Args[0], depth+1)
				}
				if core.IsCallTo(info, x, "os.Open") && len(x.Args) == 1 {
					if f := flagOf(x.Args[0]); f != nil {
						return true, "the file named by option " + f.name
					}
				}
				return false, "the result of " + types.ExprString(x.Fun)
			case *ast.StarExpr:
				if f := flagOf(x); f != nil {
					return true, "option " + f.name
				}
			case *ast.Ident:
				// a variable defined by a tuple assignment from os.Open
				if o := info.Uses[x]; o != nil {
					for _, a := range asg[o] {
						if a.Call != nil && core.IsCallTo(info, a.Call, "os.Open") && a.Idx == 0 && len(a.Call.Args) == 1 {
							if f := flagOf(a.Call.Args[0]); f != nil {
								return true, "the file named by option " + f.name
							}
						}
					}
				}
			}
			return false, "`" + types.ExprString(e) + "`"
		}
		k := 0
		for _, c := range core.Calls(cm.fd.Body) {
			if c.Pos() >= cm.payload.Pos() {
				continue
			}
			var fed ast.Expr
			id := core.FuncID(core.Callee(info, c))
			switch {
			case (id == "hash.Hash.Write" || id == "io.Writer.Write") && len(c.Args) == 1 && isHash(core.ObjOf(info, methodRecv(c))):
				fed = c.Args[0]
			case (id == "io.Copy" || id == "io.WriteString" || id == core.PkgMain+".attach") && len(c.Args) == 2 && isHash(core.ObjOf(info, c.Args[0])):
				fed = c.Args[1]
			case id == core.PkgMain+".attach" && len(c.Args) == 2 && isHash(core.ObjOf(info, c.Args[1])):
				fed = c.Args[0] // the repository's own helper: whichever operand is the hash, the other one is what it is fed
			case (id == "fmt.Fprint" || id == "fmt.Fprintf" || id == "fmt.Fprintln") && len(c.Args) >= 1 && isHash(core.ObjOf(info, c.Args[0])):
				if len(c.Args) > 1 {
					fed = c.Args[len(c.Args)-1]
				}
			}
			if fed == nil {
				continue
			}
			k++
			key := fmt.Sprintf("%s|feed#%d", cm.name, k)
			if ok, what := raw(fed, 0); ok {
				r.Ok("KEY-9", key, p.Pos(c.Pos()), "the digest is fed "+what)
			} else {
				r.Bad("KEY-9", key, p.Pos(c.Pos()), fmt.Sprintf("the digest that stands for a secondary input is fed %s, a value derived from the input rather than the input itself: inputs that differ only in what the derivation drops (record boundaries, names, features) get the same cache key and replay each other's output", what))
			}
		}
	}
}

// Key10 decides KEY-10 (HASH-FROM-START) on (*ioDelegate).TryCache: the input
// is hashed from the offset the command will later read it from. TryCache
// rewinds to the absolute start after hashing, so the hashing must start there
// too: the file that is hashed is one the process opened itself (offset 0) or
// the rewound temporary copy of standard input, never the inherited standard
// input descriptor, whose offset is whatever the parent left.
func Key10(p *core.Prog, r *core.Report) {
	r.Rule("KEY-10", "in TryCache the inherited standard input never reaches the hashing copy: on every path to io.Copy(h, d.infile) either the branch `d.infile != os.Stdin` was taken or d.infile was replaced by another file (hashing starts at the current offset, the later rewind goes to offset 0: for an inherited descriptor the two differ)", 1)
	info := p.Info(core.PkgMain)
	fd := p.FuncDecl(core.PkgMain, "ioDelegate.TryCache")
	fn := "main.ioDelegate.TryCache"
	if fd == nil || fd.Body == nil {
		r.Und("KEY-10", fn+"|anchor", "-", "anchor-unresolved")
		return
	}
	d, h := recvObj(info, fd), paramObj(info, fd, 0)
	isStdin := func(e ast.Expr) bool {
		se, ok := ast.Unparen(e).(*ast.SelectorExpr)
		if !ok || se.Sel.Name != "Stdin" {
			return false
		}
		v, ok := info.Uses[se.Sel].(*types.Var)
		return ok && v.Pkg() != nil && v.Pkg().Path() == "os"
	}
	var copyIn *ast.CallExpr
	for _, c := range core.Calls(fd.Body) {
		if core.IsCallTo(info, c, "io.Copy") && len(c.Args) == 2 && core.ObjOf(info, c.Args[0]) == h && fieldSel(info, c.Args[1], d, "infile") {
			copyIn = c
		}
	}
	if copyIn == nil {
		r.Und("KEY-10", fn+"|hash", p.Pos(fd.Pos()), "no io.Copy(h, d.infile) found")
		return
	}
	fl := core.NewFlow(info, fd.Body)
	// state: 0 = d.infile may be the inherited standard input, 1 = it is not
	violated := false
	core.Scan(fl, fl.Entry(), 0, core.Stepper[int]{
		Node: func(s int, n ast.Node) (int, bool) {
			for _, c := range core.NodeCalls(n) {
				if c == copyIn {
					if s == 0 {
						violated = true
					}
					return s, true
				}
			}
			if as, ok := n.(*ast.AssignStmt); ok && len(as.Lhs) == 1 && len(as.Rhs) == 1 && fieldSel(info, as.Lhs[0], d, "infile") {
				if isStdin(as.Rhs[0]) {
					return 0, false
				}
				return 1, false
			}
			return s, false
		},
		Edge: func(s int, cond ast.Expr, taken bool) int {
			core.Facts(cond, taken, func(atom ast.Expr, val bool) {
				be, ok := ast.Unparen(atom).(*ast.BinaryExpr)
				if !ok {
					return
				}
				cmp := (fieldSel(info, be.X, d, "infile") && isStdin(be.Y)) || (fieldSel(info, be.Y, d, "infile") && isStdin(be.X))
				if !cmp {
					return
				}
				if (be.Op.String() == "==" && !val) || (be.Op.String() == "!=" && val) {
					s = 1
				}
			})
			return s
		},
	})
	if violated {
		r.Bad("KEY-10", fn+"|hash", p.Pos(copyIn.Pos()), "a path reaches the hashing copy with d.infile still the inherited standard input: it is hashed from its current offset but rewound to offset 0, so a cached run processes bytes an uncached run never sees (and stores the result under the digest of the remainder)")
	} else {
		r.Ok("KEY-10", fn+"|hash", p.Pos(copyIn.Pos()), "standard input is always replaced by its rewound temporary copy before the hashing")
	}
}

// Key11 decides KEY-11 (CACHE-DEGRADE) on (*ioDelegate).TryCache: a failure of
// the cache machinery itself - no usable cache directory, no temporary file, no
// entry, an entry that cannot be created - is never the error TryCache
// returns. `--no-cache` does not touch any of that and succeeds, so the cached
// run must carry on without the cache instead of failing.
func Key11(p *core.Prog, r *core.Report) {
	r.Rule("KEY-11", "in TryCache the error results of the cache machinery (gtsCacheDir, ioutil.TempFile/os.CreateTemp, cache.Open, cache.Create/CreateLevel) never reach a return of TryCache as its error: on such a failure TryCache returns (false, nil) and the command runs uncached, as --no-cache would", 3)
	info := p.Info(core.PkgMain)
	fd := p.FuncDecl(core.PkgMain, "ioDelegate.TryCache")
	fn := "main.ioDelegate.TryCache"
	if fd == nil || fd.Body == nil {
		r.Und("KEY-11", fn+"|anchor", "-", "anchor-unresolved")
		return
	}
	machinery := func(c *ast.CallExpr) string {
		id := core.FuncID(core.Callee(info, c))
		switch {
		case id == core.PkgMain+".gtsCacheDir", id == "io/ioutil.TempFile", id == "os.CreateTemp", id == "os.UserCacheDir", id == "os.MkdirAll":
			return id
		case id == core.PkgCache+".Open", id == core.PkgCache+".Create", id == core.PkgCache+".CreateLevel":
			return id
		}
		return ""
	}
	par := core.Parents(fd.Body)
	k := 0
	for _, c := range core.Calls(fd.Body) {
		what := machinery(c)
		if what == "" {
			continue
		}
		k++
		key := fmt.Sprintf("%s|%s#%d", fn, what[strings.LastIndexByte(what, '/')+1:], k)
		// the variable that receives the error
		as, ok := par[ast.Node(c)].(*ast.AssignStmt)
		if !ok || len(as.Rhs) != 1 || len(as.Lhs) < 1 {
			r.Und("KEY-11", key, p.Pos(c.Pos()), "the call's results are not assigned")
			continue
		}
		errObj := core.ObjOf(info, as.Lhs[len(as.Lhs)-1])
		if errObj == nil {
			r.Ok("KEY-11", key, p.Pos(c.Pos()), "the error is discarded")
			continue
		}
		// any return whose error operand is this variable, reachable before the variable is re-assigned
		fl := core.NewFlow(info, fd.Body)
		leak := token.NoPos
		core.Scan(fl, fl.Find(as), 0, core.Stepper[int]{
			Node: func(s int, n ast.Node) (int, bool) {
				if n == ast.Node(as) {
					return s, false
				}
				if a2, ok := n.(*ast.AssignStmt); ok {
					for _, l := range a2.Lhs {
						if core.ObjOf(info, l) == errObj {
							return s, true // re-assigned: later returns carry another error
						}
					}
				}
				if rs, ok := n.(*ast.ReturnStmt); ok && len(rs.Results) == 2 {
					if core.UsesObj(info, rs.Results[1], errObj) && leak == token.NoPos {
						leak = rs.Pos()
					}
				}
				return s, false
			},
		})
		if leak != token.NoPos {
			r.Bad("KEY-11", key, p.Pos(leak), fmt.Sprintf("the error of %s is returned by TryCache: with an unusable cache (no home directory, read-only cache location) every cached command fails with exit status 1 where --no-cache succeeds", what))
		} else {
			r.Ok("KEY-11", key, p.Pos(c.Pos()), "a failure degrades to an uncached run")
		}
	}
}

package cachekey

import (
	"fmt"
	"go/ast"
	"go/token"
	"go/types"

	"gtsverif/core"
)

// FlagAfterParse decides FLAG-AFTER-PARSE: a command reads the value of an
// option only after ctx.Parse has filled it in. Before that the pointer the
// flag set handed out still points at the default, so anything derived from it
// there (`delete := gts.Delete; if *erase { delete = gts.Erase }` hoisted to
// the declarations) is decided by the default for good, whatever the user
// passed - while the cache key, built later, records the real value.
func FlagAfterParse(p *core.Prog, r *core.Report) {
	r.Rule("FLAG-AFTER-PARSE", "in every command function of cmd/gts no option value is read (`*flag` as an rvalue, outside function literals) on a path that has not passed ctx.Parse yet: before Parse the pointer holds the default, not what the user passed", 19)
	info := p.Info(core.PkgMain)
	for _, cm := range commands(p) {
		var parse *ast.CallExpr
		for _, c := range core.Calls(cm.fd.Body) {
			if fn := core.Callee(info, c); fn != nil && fn.Name() == "Parse" && fn.Pkg() != nil && fn.Pkg().Path() == flagsPkg && len(c.Args) == 2 {
				if parse == nil {
					parse = c
				}
			}
		}
		key := cm.name
		if parse == nil {
			r.Und("FLAG-AFTER-PARSE", key, p.Pos(cm.fd.Pos()), "no ctx.Parse(pos, opt) call found in the command")
			continue
		}
		// reads of a flag value
		par := core.Parents(cm.fd.Body)
		var reads []*ast.StarExpr
		ast.Inspect(cm.fd.Body, func(n ast.Node) bool {
			if _, ok := n.(*ast.FuncLit); ok {
				return false
			}
			se, ok := n.(*ast.StarExpr)
			if !ok || cm.byObj[core.ObjOf(info, se.X)] == nil {
				return true
			}
			if as, ok := par[ast.Node(se)].(*ast.AssignStmt); ok {
				for _, l := range as.Lhs {
					if l == ast.Expr(se) {
						return true // a store through the pointer (a default), not a read
					}
				}
			}
			reads = append(reads, se)
			return true
		})
		// the reads reachable from the entry without passing Parse
		fl := core.NewFlow(info, cm.fd.Body)
		early := map[*ast.StarExpr]bool{}
		core.Scan(fl, fl.Entry(), 0, core.Stepper[int]{
			Node: func(s int, n ast.Node) (int, bool) {
				for _, c := range core.NodeCalls(n) {
					if c == parse {
						return s, true
					}
				}
				for _, se := range reads {
					if n.Pos() <= se.Pos() && se.End() <= n.End() {
						early[se] = true
					}
				}
				return s, false
			},
		})
		bad := false
		for _, se := range reads {
			// the statement that holds the Parse call itself reads nothing of interest; a read that sits in
			// the same CFG node as Parse but lexically behind it is evaluated afterwards
			if early[se] && !(se.Pos() > parse.End()) {
				f := cm.byObj[core.ObjOf(info, se.X)]
				bad = true
				r.Bad("FLAG-AFTER-PARSE", key+"|"+f.name, p.Pos(se.Pos()), fmt.Sprintf("option %s is read before ctx.Parse (line %s): at that point it still holds its default, so what is decided here never follows the command line (`gts delete --erase` deleting as without --erase, while the cache key records erase=true)", f.name, p.Pos(parse.Pos())))
			}
		}
		if !bad {
			r.Ok("FLAG-AFTER-PARSE", key, p.Pos(parse.Pos()), fmt.Sprintf("%d option reads, all behind ctx.Parse", len(reads)))
		}
	}
}

// ReplayHit decides REPLAY-HIT on (*ioDelegate).TryCache: once the entry has
// been copied to the output without error, TryCache reports a hit. Every
// command treats `false` as "compute the result and write it": a replay that
// reports a miss leaves the output holding the result twice.
func ReplayHit(p *core.Prog, r *core.Report) {
	r.Rule("REPLAY-HIT", "in TryCache every return that is reached after the cache entry was copied to the output without error returns true: the caller computes and writes the result whenever it is told false, so a replay reported as a miss doubles the output", 1)
	info := p.Info(core.PkgMain)
	fd := p.FuncDecl(core.PkgMain, "ioDelegate.TryCache")
	fn := "main.ioDelegate.TryCache"
	if fd == nil || fd.Body == nil {
		r.Und("REPLAY-HIT", fn+"|anchor", "-", "anchor-unresolved")
		return
	}
	d := recvObj(info, fd)
	var replay *ast.CallExpr
	for _, c := range core.Calls(fd.Body) {
		if core.IsCallTo(info, c, "io.Copy", "io.CopyBuffer", "io.CopyN") && len(c.Args) >= 2 && (fieldSel(info, c.Args[0], d, "outfile") || core.ObjOf(info, c.Args[0]) == d) {
			replay = c
		}
	}
	if replay == nil {
		r.Und("REPLAY-HIT", fn+"|replay", p.Pos(fd.Pos()), "no copy of the entry to the output found")
		return
	}
	// the error variable of the copy
	par := core.Parents(fd.Body)
	var errObj types.Object
	if as, ok := par[ast.Node(replay)].(*ast.AssignStmt); ok && len(as.Lhs) >= 1 {
		errObj = core.ObjOf(info, as.Lhs[len(as.Lhs)-1])
	}
	fl := core.NewFlow(info, fd.Body)
	var badRet *ast.ReturnStmt
	seen := false
	// state: 1 = copied, outcome not looked at; 2 = copy known to have succeeded; 3 = copy failed
	core.Scan(fl, fl.Find(par[ast.Node(replay)]), 1, core.Stepper[int]{
		Node: func(s int, n ast.Node) (int, bool) {
			if rs, ok := n.(*ast.ReturnStmt); ok && len(rs.Results) == 2 {
				seen = true
				if s != 3 {
					if id, ok := ast.Unparen(rs.Results[0]).(*ast.Ident); !ok || id.Name != "true" {
						if badRet == nil {
							badRet = rs
						}
					}
				}
				return s, true
			}
			return s, false
		},
		Edge: func(s int, cond ast.Expr, taken bool) int {
			core.Facts(cond, taken, func(atom ast.Expr, val bool) {
				be, ok := ast.Unparen(atom).(*ast.BinaryExpr)
				if !ok || errObj == nil || core.ObjOf(info, be.X) != errObj || !core.IsNil(info, be.Y) {
					return
				}
				failed := (be.Op == token.NEQ && val) || (be.Op == token.EQL && !val)
				if s == 1 {
					if failed {
						s = 3
					} else {
						s = 2
					}
				}
			})
			return s
		},
	})
	switch {
	case !seen:
		r.Und("REPLAY-HIT", fn+"|replay", p.Pos(replay.Pos()), "no return is reached from the replay")
	case badRet != nil:
		r.Bad("REPLAY-HIT", fn+"|replay", p.Pos(badRet.Pos()), "after the entry has been copied to the output TryCache returns something other than true: the command goes on to compute and write its result behind the replayed bytes (`gts ... -o FILE` on a warm cache leaves the output in FILE twice)")
	default:
		r.Ok("REPLAY-HIT", fn+"|replay", p.Pos(replay.Pos()), "a completed replay is reported as a hit")
	}
}

// DigestAfterRead decides DIGEST-AFTER-READ: where a command hashes a
// secondary input while it reads it (attach(h, f) / io.TeeReader: the hash is
// fed as a side effect of reading), the digest is taken only after the reading.
// A Sum taken on a path that has not consumed the reader yet is the digest of
// nothing - the same for every file - and the cache key no longer depends on
// the secondary input at all.
func DigestAfterRead(p *core.Prog, r *core.Report) {
	r.Rule("DIGEST-AFTER-READ", "in a cached command every path from attach(h, f) / io.TeeReader(f, h) to h.Sum passes a call that consumes the attached reader (Scan of a scanner built on it, io.Copy / ReadAll from it): the hash only sees what has been read, so a Sum taken earlier is the digest of the empty input for every file", 2)
	info := p.Info(core.PkgMain)
	for _, cm := range commands(p) {
		asg := core.Assigns(info, cm.fd.Body)
		k := 0
		for _, c := range core.Calls(cm.fd.Body) {
			var hExpr ast.Expr
			switch id := core.FuncID(core.Callee(info, c)); {
			case id == core.PkgMain+".attach" && len(c.Args) == 2:
				hExpr = c.Args[0]
				if core.NamedOf(info.TypeOf(c.Args[0])) != "hash.Hash" {
					hExpr = c.Args[1]
				}
			case id == "io.TeeReader" && len(c.Args) == 2:
				hExpr = c.Args[1]
			default:
				continue
			}
			h := core.ObjOf(info, hExpr)
			if h == nil {
				continue
			}
			k++
			key := fmt.Sprintf("%s|attach#%d", cm.name, k)
			// objects derived from the attached reader
			derived := map[types.Object]bool{}
			for o, as := range asg {
				for _, a := range as {
					if a.RHS != nil && ast.Unparen(a.RHS) == ast.Expr(c) || a.Call == c {
						derived[o] = true
					}
				}
			}
			for changed := true; changed; {
				changed = false
				for o, as := range asg {
					if derived[o] {
						continue
					}
					for _, a := range as {
						var call *ast.CallExpr
						if a.RHS != nil {
							call, _ = ast.Unparen(a.RHS).(*ast.CallExpr)
						} else {
							call = a.Call
						}
						if call == nil || returnsError(info, call) {
							continue // a call that can fail does the reading; a wrapper (NewState, NewAutoScanner) cannot
						}
						for _, arg := range call.Args {
							if derived[core.ObjOf(info, arg)] || ast.Unparen(arg) == ast.Expr(c) {
								derived[o], changed = true, true
							}
						}
					}
				}
			}
			consumes := func(cc *ast.CallExpr) bool {
				if recv := methodRecv(cc); recv != nil && derived[core.ObjOf(info, recv)] {
					return true // scanner.Scan(), r.Read(...)
				}
				if core.IsCallTo(info, cc, "io.Copy", "io.ReadAll", "io/ioutil.ReadAll", "io.CopyBuffer") || returnsError(info, cc) {
					for _, arg := range cc.Args {
						if derived[core.ObjOf(info, arg)] || ast.Unparen(arg) == ast.Expr(c) {
							return true
						}
					}
				}
				return false
			}
			par := core.Parents(cm.fd.Body)
			st := core.EnclosingStmt(par, c)
			fl := core.NewFlow(info, cm.fd.Body)
			from := fl.Find(st)
			if !from.Valid() {
				r.Und("DIGEST-AFTER-READ", key, p.Pos(c.Pos()), "the attach call is not a node of the control-flow graph")
				continue
			}
			var early *ast.CallExpr
			sums := 0
			core.Scan(fl, from, 0, core.Stepper[int]{
				Node: func(s int, n ast.Node) (int, bool) {
					for _, cc := range core.NodeCalls(n) {
						if cc == c {
							continue
						}
						if consumes(cc) {
							return s, true
						}
						if fn := core.Callee(info, cc); fn != nil && fn.Name() == "Sum" && core.ObjOf(info, methodRecv(cc)) == h {
							sums++
							if early == nil {
								early = cc
							}
							return s, true
						}
						if fn := core.Callee(info, cc); fn != nil && fn.Name() == "Reset" && core.ObjOf(info, methodRecv(cc)) == h {
							return s, true // a new digest starts here
						}
					}
					return s, false
				},
			})
			if early != nil {
				r.Bad("DIGEST-AFTER-READ", key, p.Pos(early.Pos()), "the digest is taken on a path that has not read the attached input yet: the hash has seen nothing, every file gives the same digest, and two runs that differ only in this file share one cache entry (`gts infix` replaying the result computed for another host)")
			} else {
				r.Ok("DIGEST-AFTER-READ", key, p.Pos(c.Pos()), "the digest is taken behind the reading")
			}
		}
	}
}

func returnsError(info *types.Info, c *ast.CallExpr) bool {
	sig, ok := info.TypeOf(c.Fun).(*types.Signature)
	if !ok {
		return false
	}
	for i := 0; i < sig.Results().Len(); i++ {
		if types.TypeString(sig.Results().At(i).Type(), nil) == "error" {
			return true
		}
	}
	return false
}

// RaiseReturned decides RAISE-RETURNED: in cmd/gts the error ctx.Raise builds
// is returned by the command. Raise only wraps the error - the command stops
// because its caller sees a non-nil result. A Raise whose result is dropped
// lets the command run on as if nothing had happened: with an unreadable
// secondary input (`gts search q.txt` where q.txt holds no sequence) it
// processes the records with no query at all, exits 0 and commits that output
// to the cache - under the digest of the file's bytes, which a literal argument
// with the same bytes (`@ACGT`) shares, so the literal invocation then replays
// it.
func RaiseReturned(p *core.Prog, r *core.Report) {
	r.Rule("RAISE-RETURNED", "every call of (*flags.Context).Raise in cmd/gts is the operand of a return statement: the error it builds is the only thing that stops the command, so a dropped one lets a failed run finish, exit 0 and commit its output to the cache", 60)
	info := p.Info(core.PkgMain)
	n := 0
	for _, fd := range p.FuncDecls(core.PkgMain) {
		if fd.Body == nil {
			continue
		}
		par := core.Parents(fd.Body)
		k := 0
		for _, c := range core.Calls(fd.Body) {
			fn := core.Callee(info, c)
			if fn == nil || fn.Name() != "Raise" || fn.Pkg() == nil || fn.Pkg().Path() != flagsPkg {
				continue
			}
			k++
			n++
			key := fmt.Sprintf("main.%s|Raise#%d", core.DeclName(fd), k)
			returned := false
			for m := par[ast.Node(c)]; m != nil; m = par[m] {
				if _, ok := m.(*ast.ReturnStmt); ok {
					returned = true
					break
				}
				if as, ok := m.(*ast.AssignStmt); ok && len(as.Lhs) == 1 && len(as.Rhs) == 1 {
					// err := ctx.Raise(..) ... return err: the variable holds nothing else and a return
					// statement with it as operand follows in the same block
					if v := core.ObjOf(info, as.Lhs[0]); v != nil {
						if blk, ok := par[ast.Node(as)].(*ast.BlockStmt); ok {
							after := false
							for _, st := range blk.List {
								if st == ast.Stmt(as) {
									after = true
									continue
								}
								if !after {
									continue
								}
								if rs, ok := st.(*ast.ReturnStmt); ok {
									for _, res := range rs.Results {
										if core.ObjOf(info, res) == v {
											returned = true
										}
									}
								}
								break // only the statement right behind the assignment counts
							}
						}
					}
					break
				}
				if _, ok := m.(ast.Stmt); ok {
					break
				}
			}
			if returned {
				r.Ok("RAISE-RETURNED", key, p.Pos(c.Pos()), "returned")
			} else {
				r.Bad("RAISE-RETURNED", key, p.Pos(c.Pos()), fmt.Sprintf("%s builds an error with ctx.Raise and drops it: the command carries on after the failure, finishes with exit status 0 and commits what it wrote to the cache (`gts search q.txt`, q.txt holding the bytes `@gagttttatcgcttcc` and so no sequence, stores the un-annotated input under the key that `gts search @gagttttatcgcttcc` looks up: that cached run then differs from its --no-cache run)", core.DeclName(fd)))
			}
		}
	}
	if n == 0 {
		r.Und("RAISE-RETURNED", "main|Raise", "-", "no ctx.Raise call found in cmd/gts")
	}
}

// Key12 decides KEY-12 (HASH-REWINDABLE) on (*ioDelegate).TryCache: the input
// is hashed by reading it to the end and is then rewound for the command to
// read. Hashing is therefore only ever started on a file that can be rewound:
// the temporary copy, or a file a Seek on which has just succeeded. A named
// pipe given as the input (`gts cmd <(producer)`, a FIFO) is consumed by the
// hashing and cannot be rewound: the cached run fails with "illegal seek" -
// or, were the error ignored, would process an empty input - where --no-cache
// streams the same input without trouble.
func Key12(p *core.Prog, r *core.Report) {
	r.Rule("KEY-12", "in TryCache every path to the hashing copy io.Copy(h, d.infile) has either replaced d.infile by the temporary copy or taken the true branch of a seekability probe on it (a function of package main that returns whether a Seek on its *os.File argument succeeded): an input that cannot be rewound is never consumed by the hashing", 1)
	info := p.Info(core.PkgMain)
	fd := p.FuncDecl(core.PkgMain, "ioDelegate.TryCache")
	fn := "main.ioDelegate.TryCache"
	if fd == nil || fd.Body == nil {
		r.Und("KEY-12", fn+"|anchor", "-", "anchor-unresolved")
		return
	}
	d, h := recvObj(info, fd), paramObj(info, fd, 0)
	// seekability probes: func(f *os.File) bool { _, err := f.Seek(..); return err == nil }
	probes := map[*types.Func]bool{}
	for _, cand := range p.FuncDecls(core.PkgMain) {
		if cand.Body == nil || cand.Recv != nil || cand.Type.Params.NumFields() != 1 || cand.Type.Results == nil || len(cand.Type.Results.List) != 1 {
			continue
		}
		if types.TypeString(info.TypeOf(cand.Type.Results.List[0].Type), nil) != "bool" || len(cand.Type.Params.List[0].Names) != 1 {
			continue
		}
		param := info.Defs[cand.Type.Params.List[0].Names[0]]
		var errObj types.Object
		for _, c := range core.Calls(cand.Body) {
			if core.FuncID(core.Callee(info, c)) == "os.File.Seek" && core.ObjOf(info, methodRecv(c)) == param {
				for o, as := range core.Assigns(info, cand.Body) {
					for _, a := range as {
						if a.Call == c && a.Idx == 1 {
							errObj = o
						}
					}
				}
			}
		}
		if errObj == nil {
			continue
		}
		okRet := true
		for _, rs := range core.Returns(cand.Body) {
			be, isB := ast.Unparen(rs.Results[0]).(*ast.BinaryExpr)
			if !isB || be.Op != token.EQL || core.ObjOf(info, be.X) != errObj || !core.IsNil(info, be.Y) {
				okRet = false
			}
		}
		if okRet {
			if f, ok := info.Defs[cand.Name].(*types.Func); ok {
				probes[f] = true
			}
		}
	}
	var copyIn *ast.CallExpr
	for _, c := range core.Calls(fd.Body) {
		if core.IsCallTo(info, c, "io.Copy") && len(c.Args) == 2 && core.ObjOf(info, c.Args[0]) == h && fieldSel(info, c.Args[1], d, "infile") {
			copyIn = c
		}
	}
	if copyIn == nil {
		r.Und("KEY-12", fn+"|hash", p.Pos(fd.Pos()), "no io.Copy(h, d.infile) found")
		return
	}
	fl := core.NewFlow(info, fd.Body)
	violated := false
	// state: 0 = d.infile may be a file that cannot be rewound, 1 = it can
	core.Scan(fl, fl.Entry(), 0, core.Stepper[int]{
		Node: func(s int, n ast.Node) (int, bool) {
			for _, c := range core.NodeCalls(n) {
				if c == copyIn {
					if s == 0 {
						violated = true
					}
					return s, true
				}
			}
			if as, ok := n.(*ast.AssignStmt); ok && len(as.Lhs) == 1 && len(as.Rhs) == 1 && fieldSel(info, as.Lhs[0], d, "infile") {
				// the temporary copy: a file made by TempFile / CreateTemp in this function
				if o := core.ObjOf(info, as.Rhs[0]); o != nil {
					for _, a := range core.Assigns(info, fd.Body)[o] {
						if a.Call != nil && core.IsCallTo(info, a.Call, "io/ioutil.TempFile", "os.CreateTemp") && a.Idx == 0 {
							return 1, false
						}
					}
				}
				return 0, false
			}
			return s, false
		},
		Edge: func(s int, cond ast.Expr, taken bool) int {
			core.Facts(cond, taken, func(atom ast.Expr, val bool) {
				c, ok := ast.Unparen(atom).(*ast.CallExpr)
				if !ok || len(c.Args) != 1 || !fieldSel(info, c.Args[0], d, "infile") {
					return
				}
				if fn := core.Callee(info, c); fn != nil && probes[fn] && val {
					s = 1
				}
			})
			return s
		},
	})
	if violated {
		r.Bad("KEY-12", fn+"|hash", p.Pos(copyIn.Pos()), "a path reaches the hashing copy with an input that may not be rewindable: a FIFO or pipe given as the input file is read to its end by the hashing and the seek back to the start fails (TryCache on a FIFO holding \">x\\nACGT\\n\" returns `seek ...: illegal seek`, the command exits 1; with --no-cache it streams the FIFO and succeeds)")
	} else {
		r.Ok("KEY-12", fn+"|hash", p.Pos(copyIn.Pos()), "only the temporary copy or a file that passed the seekability probe is hashed")
	}
}

package cachekey

import (
	"fmt"
	"go/ast"
	"go/token"
	"go/types"

	"gtsverif/core"
)

// PayloadEncode decides PAYLOAD-ENCODE: the bytes that stand for the argument
// list in the cache key are an injective encoding of it. encodePayload returns
// the result of json.Marshal applied to its whole parameter: JSON keeps element
// boundaries, quotes strings and escapes separators. A rendering with %v (or
// strings.Join, fmt.Sprint) writes ["CDS","gene"] and ["CDS gene"] as the same
// bytes, so two different invocations share an entry.
func PayloadEncode(p *core.Prog, r *core.Report) {
	r.Rule("PAYLOAD-ENCODE", "main.encodePayload returns json.Marshal of its whole parameter (an injective encoding: element boundaries, quoting and escaping are kept); nothing else is written into the result", 1)
	info := p.Info(core.PkgMain)
	fd := p.FuncDecl(core.PkgMain, "encodePayload")
	key := "main.encodePayload"
	if fd == nil || fd.Body == nil || fd.Type.Params.NumFields() != 1 {
		r.Und("PAYLOAD-ENCODE", key+"|anchor", "-", "anchor-unresolved")
		return
	}
	r.Fn(key)
	asg := core.Assigns(info, fd.Body)
	n, bad := 0, ""
	var badPos token.Pos
	for _, rs := range core.Returns(fd.Body) {
		if len(rs.Results) != 1 {
			continue
		}
		n++
		o := core.ObjOf(info, rs.Results[0])
		okRet := false
		if o != nil {
			for _, d := range asg[o] {
				if d.Call != nil && d.Idx == 0 && core.IsCallTo(info, d.Call, "encoding/json.Marshal") && len(d.Call.Args) == 1 &&
					core.ParamIndex(info, fd, core.ObjOf(info, d.Call.Args[0])) == 0 && len(asg[o]) == 1 {
					okRet = true
				}
			}
		}
		if !okRet {
			bad, badPos = fmt.Sprintf("the payload returned is `%s`, not the result of json.Marshal of the whole tuple list", types.ExprString(rs.Results[0])), rs.Pos()
		}
	}
	switch {
	case n == 0:
		r.Und("PAYLOAD-ENCODE", key, p.Pos(fd.Pos()), "no return found")
	case bad != "":
		r.Bad("PAYLOAD-ENCODE", key, p.Pos(badPos), bad+": an encoding that drops element boundaries or does not escape its separators (%v, Sprint, Join) maps different argument lists to the same bytes - `gts select CDS gene` and `gts select \"CDS gene\"` get one digest and replay each other's output")
	default:
		r.Ok("PAYLOAD-ENCODE", key, p.Pos(fd.Pos()), "json.Marshal of the whole tuple list")
	}
}

// HashStrong decides HASH-STRONG: newHash, the one source of every digest in the
// cache key and the entry header, returns a cryptographic hash of at least 128
// bits. A checksum (CRC-32, Adler-32, FNV, maphash) has collisions among a few
// ten thousand inputs: two different inputs then address one entry and the
// second run replays the first one's output.
func HashStrong(p *core.Prog, r *core.Report) {
	r.Rule("HASH-STRONG", "main.newHash returns a hash constructed by crypto/sha1, crypto/sha256, crypto/sha512 or crypto/md5 (collision resistance is what makes 'a change of the input misses the cache' hold); hash/crc32, hash/adler32, hash/fnv and hash/maphash are checksums", 1)
	info := p.Info(core.PkgMain)
	fd := p.FuncDecl(core.PkgMain, "newHash")
	key := "main.newHash"
	if fd == nil || fd.Body == nil {
		r.Und("HASH-STRONG", key+"|anchor", "-", "anchor-unresolved")
		return
	}
	r.Fn(key)
	strong := map[string]bool{"crypto/sha1": true, "crypto/sha256": true, "crypto/sha512": true, "crypto/md5": true, "crypto/sha3": true}
	n := 0
	for _, rs := range core.Returns(fd.Body) {
		if len(rs.Results) != 1 {
			continue
		}
		n++
		c, ok := ast.Unparen(rs.Results[0]).(*ast.CallExpr)
		var fn *types.Func
		if ok {
			fn = core.Callee(info, c)
		}
		if fn == nil || fn.Pkg() == nil {
			r.Und("HASH-STRONG", key, p.Pos(rs.Pos()), "the returned hash is not the result of a constructor call")
			return
		}
		if !strong[fn.Pkg().Path()] {
			r.Bad("HASH-STRONG", key, p.Pos(rs.Pos()), fmt.Sprintf("the digests of the cache key come from %s.%s, a checksum: different inputs (or argument lists) with the same checksum address the same entry, whose header - keyed by the same checksum - verifies, and the second invocation replays the first one's output", fn.Pkg().Path(), fn.Name()))
			return
		}
	}
	if n == 0 {
		r.Und("HASH-STRONG", key, p.Pos(fd.Pos()), "no return found")
		return
	}
	r.Ok("HASH-STRONG", key, p.Pos(fd.Pos()), "a cryptographic hash")
}

// MapOrder decides MAP-ORDER in the commands: Go randomises the order of a map
// range, so a slice that is filled from one and later written out must first
// be sorted by a total order - sort.Strings/Ints, or sort.Sort / sort.Slice with
// a Less whose last word is a direct comparison of the field that holds the
// map key (unique per element). If the tie-break compares a function of the
// key (its lower-case form, its length), elements that tie keep the order the
// map happened to yield: the output differs from run to run, the cache freezes
// one variant, and cached and uncached bytes differ.
func MapOrder(p *core.Prog, r *core.Report) {
	r.Rule("MAP-ORDER", "in package main a slice appended to inside a range over a map is sorted before use by sort.Strings/sort.Ints/sort.Float64s, or by sort.Sort/sort.Stable/sort.Slice with a Less that ends in `x[i].K < x[j].K` (or >) on the very field the map key was stored in, with no function applied: the output of a command is a function of its input, not of map iteration order", 3)
	info := p.Info(core.PkgMain)
	for _, fd := range p.FuncDecls(core.PkgMain) {
		if fd.Body == nil {
			continue
		}
		par := core.Parents(fd.Body)
		k := 0
		ast.Inspect(fd.Body, func(n ast.Node) bool {
			rs, ok := n.(*ast.RangeStmt)
			if !ok {
				return true
			}
			tv, has := info.Types[rs.X]
			if !has || tv.Type == nil {
				return true
			}
			if _, isMap := tv.Type.Underlying().(*types.Map); !isMap {
				return true
			}
			keyObj := core.ObjOf(info, rs.Key)
			// slices appended to, or stored into by index, in the body
			type fillSite struct {
				s    types.Object
				elem ast.Expr
			}
			var fills []fillSite
			for _, c := range core.Calls(rs.Body) {
				if core.IsBuiltin(info, c, "append") && len(c.Args) >= 2 {
					if s := core.ObjOf(info, c.Args[0]); s != nil {
						fills = append(fills, fillSite{s, c.Args[1]})
					}
				}
			}
			ast.Inspect(rs.Body, func(m ast.Node) bool {
				if as, ok := m.(*ast.AssignStmt); ok && len(as.Lhs) == 1 && len(as.Rhs) == 1 {
					if ix, ok := ast.Unparen(as.Lhs[0]).(*ast.IndexExpr); ok {
						if s := core.ObjOf(info, ix.X); s != nil {
							if _, isSlice := s.Type().Underlying().(*types.Slice); isSlice {
								fills = append(fills, fillSite{s, as.Rhs[0]})
							}
						}
					}
				}
				return true
			})
			for _, fsite := range fills {
				s := fsite.s
				c := &ast.CallExpr{Args: []ast.Expr{nil, fsite.elem}}
				k++
				okey := fmt.Sprintf("main.%s|map-range#%d(%s)", core.DeclName(fd), k, s.Name())
				r.Fn("main." + core.DeclName(fd))
				// which field of the element holds the map key?
				field := ""
				plain := false
				if keyObj != nil && core.ObjOf(info, c.Args[1]) == keyObj {
					plain = true
				}
				if cl, ok := ast.Unparen(c.Args[1]).(*ast.CompositeLit); ok && keyObj != nil {
					if st, ok := info.Types[cl].Type.Underlying().(*types.Struct); ok {
						for i, el := range cl.Elts {
							if kv, isKV := el.(*ast.KeyValueExpr); isKV {
								if core.ObjOf(info, kv.Value) == keyObj {
									field = types.ExprString(kv.Key)
								}
							} else if core.ObjOf(info, el) == keyObj && i < st.NumFields() {
								field = st.Field(i).Name()
							}
						}
					}
				}
				// the sort that follows the loop in its block
				var stmts []ast.Stmt
				switch b := par[ast.Node(rs)].(type) {
				case *ast.BlockStmt:
					stmts = b.List
				case *ast.CaseClause:
					stmts = b.Body
				default:
					r.Und("MAP-ORDER", okey, p.Pos(rs.Pos()), "the loop is not a statement of a block")
					continue
				}
				verdict, why := "", "nothing sorts `"+s.Name()+"` after the loop"
				after := false
				for _, st := range stmts {
					if st == ast.Stmt(rs) {
						after = true
						continue
					}
					if !after || verdict != "" {
						continue
					}
					es, isExpr := st.(*ast.ExprStmt)
					if !isExpr {
						if core.UsesObj(info, st, s) {
							break
						}
						continue
					}
					sc, isCall := es.X.(*ast.CallExpr)
					if !isCall || len(sc.Args) == 0 {
						continue
					}
					arg := ast.Unparen(sc.Args[0])
					conv, isConv := arg.(*ast.CallExpr)
					if isConv && core.IsConversion(info, conv) && len(conv.Args) == 1 {
						arg = ast.Unparen(conv.Args[0])
					}
					if core.ObjOf(info, arg) != s {
						continue
					}
					switch {
					case core.IsCallTo(info, sc, "sort.Strings", "sort.Ints", "sort.Float64s"):
						if plain {
							verdict = "ok"
						} else {
							verdict, why = "bad", "the elements are not the map keys themselves"
						}
					case core.IsCallTo(info, sc, "sort.Sort", "sort.Stable") && isConv:
						nt, _ := info.Types[conv.Fun].Type.(*types.Named)
						if nt == nil {
							verdict, why = "und", "the sort.Interface type cannot be resolved"
							break
						}
						ld := p.FuncDecl(core.PkgMain, nt.Obj().Name()+".Less")
						if ld == nil || ld.Body == nil {
							verdict, why = "und", "no Less method found for "+nt.Obj().Name()
							break
						}
						if ok, w := lessTotalOn(info, ld.Type.Params, ld.Body, field); ok {
							verdict = "ok"
						} else {
							verdict, why = "bad", nt.Obj().Name()+".Less: "+w
						}
					case core.IsCallTo(info, sc, "sort.Slice", "sort.SliceStable") && len(sc.Args) == 2:
						if lit, ok := ast.Unparen(sc.Args[1]).(*ast.FuncLit); ok {
							if ok, w := lessTotalOn(info, lit.Type.Params, lit.Body, field); ok {
								verdict = "ok"
							} else {
								verdict, why = "bad", "the comparison function: "+w
							}
						} else {
							verdict, why = "und", "the comparison function is not a literal"
						}
					}
				}
				switch verdict {
				case "ok":
					r.Ok("MAP-ORDER", okey, p.Pos(rs.Pos()), "sorted by a total order on the map key before use")
				case "und":
					r.Und("MAP-ORDER", okey, p.Pos(rs.Pos()), why)
				default:
					r.Bad("MAP-ORDER", okey, p.Pos(rs.Pos()), fmt.Sprintf("`%s` is filled in the (randomised) order of a map range and %s: elements that compare equal keep whatever order the map yielded, so the command's output differs from run to run; a cache entry freezes one variant and the cached bytes differ from what --no-cache prints", s.Name(), why))
				}
			}
			return true
		})
	}
}

// lessTotalOn: the body's last statement is `return x[i].field < x[j].field` (or >), i and j the two
// parameters in either order, and no call is applied to either side.
func lessTotalOn(info *types.Info, params *ast.FieldList, body *ast.BlockStmt, field string) (bool, string) {
	if field == "" {
		return false, "the element field that holds the map key cannot be identified"
	}
	var ps []types.Object
	for _, f := range params.List {
		for _, n := range f.Names {
			ps = append(ps, info.Defs[n])
		}
	}
	if len(ps) != 2 || len(body.List) == 0 {
		return false, "not a two-parameter comparison"
	}
	rs, ok := body.List[len(body.List)-1].(*ast.ReturnStmt)
	if !ok || len(rs.Results) != 1 {
		return false, "does not end in a return"
	}
	be, ok := ast.Unparen(rs.Results[0]).(*ast.BinaryExpr)
	if !ok || (be.Op != token.LSS && be.Op != token.GTR) {
		return false, "the last word is not a strict comparison"
	}
	asg := core.Assigns(info, body)
	side := func(e ast.Expr) types.Object {
		se, ok := ast.Unparen(e).(*ast.SelectorExpr)
		if !ok || se.Sel.Name != field {
			return nil
		}
		// x[i].K, or a.K with the local a := x[i]
		ix, ok := ast.Unparen(core.Origin(info, asg, se.X)).(*ast.IndexExpr)
		if !ok {
			return nil
		}
		return core.ObjOf(info, ix.Index)
	}
	a, b := side(be.X), side(be.Y)
	if a == nil || b == nil || a == b || !((a == ps[0] && b == ps[1]) || (a == ps[1] && b == ps[0])) {
		return false, fmt.Sprintf("the tie-break `%s` is not a direct comparison of the field %s of the two elements (a function of the key - its lower-case form, its length - is not injective, so distinct keys can tie)", types.ExprString(be), field)
	}
	return true, ""
}

package cachekey

import "gtsverif/core"

// C14 runs every cache-transparency rule.
func C14(p *core.Prog, r *core.Report) {
	Keys(p, r)
	Key6(p, r)
	Key78(p, r)
	Key9(p, r)
	Key10(p, r)
	Key11(p, r)
	Key12(p, r)
	PayloadEncode(p, r)
	HashStrong(p, r)
	MapOrder(p, r)
	TryCacheRules(p, r)
	Tee(p, r)
	Commit(p, r)
	FlagAfterParse(p, r)
	ReplayHit(p, r)
	DigestAfterRead(p, r)
	RaiseReturned(p, r)
	r.NotDecided = append(r.NotDecided, "byte equality of the two runs (needs execution)", "behaviour under cache-directory I/O faults", "the -o replay path's removal of the entry", "options whose effect is lossy inside the payload expression")
	r.Assumptions = append(r.Assumptions, "encoding/json marshals distinct values of the types accepted by KEY-6 to distinct payload bytes (strings that are valid UTF-8)", "the cryptographic hashes accepted by HASH-STRONG do not collide in practice", "hash.Hash implementations never fail in Write", "go/cfg models control flow of the analysed functions (no goto/labels in them)")
}

// Package cachekey implements E2: cache-key completeness (flag -> payload
// dataflow) and the commit typestate of the cached commands of cmd/gts.
package cachekey

import (
	"fmt"
	"go/ast"
	"go/token"
	"go/types"
	"sort"
	"strings"

	"gtsverif/core"
)

const (
	idTryCache    = core.PkgMain + ".ioDelegate.TryCache"
	idNewDelegate = core.PkgMain + ".newIODelegate"
	idEncode      = core.PkgMain + ".encodePayload"
	flagsPkg      = "github.com/go-gts/flags"
)

type set map[types.Object]bool

func (s set) addAll(o set) {
	for k := range o {
		s[k] = true
	}
}

type flagVar struct {
	obj  types.Object
	name string
	pos  token.Pos
}

// taint is the position-ordered dependence computation described in DESIGN.md E2.
type taint struct {
	info  *types.Info
	deps  map[types.Object]set
	src   map[types.Object]bool // flags and ctx: sources
	ctrl  []set
	limit token.Pos // events at or after this position are ignored
}

func (t *taint) get(o types.Object) set {
	s := t.deps[o]
	if s == nil {
		s = set{}
		t.deps[o] = s
	}
	return s
}

// exprDeps: union of the deps of every local variable mentioned in e.
func (t *taint) exprDeps(e ast.Node) set {
	out := set{}
	if e == nil {
		return out
	}
	ast.Inspect(e, func(n ast.Node) bool {
		id, ok := n.(*ast.Ident)
		if !ok {
			return true
		}
		o := t.info.Uses[id]
		if o == nil {
			o = t.info.Defs[id]
		}
		v, ok := o.(*types.Var)
		if !ok || v.IsField() {
			return true
		}
		if t.src[o] {
			out[o] = true
		}
		out.addAll(t.deps[o])
		return true
	})
	return out
}

func (t *taint) ctrlDeps() set {
	out := set{}
	for _, c := range t.ctrl {
		out.addAll(c)
	}
	return out
}

func rootIdent(e ast.Expr) *ast.Ident {
	for {
		switch x := ast.Unparen(e).(type) {
		case *ast.Ident:
			return x
		case *ast.SelectorExpr:
			e = x.X
		case *ast.IndexExpr:
			e = x.X
		case *ast.StarExpr:
			e = x.X
		case *ast.UnaryExpr:
			e = x.X
		case *ast.SliceExpr:
			e = x.X
		default:
			return nil
		}
	}
}

func (t *taint) localVar(id *ast.Ident) types.Object {
	if id == nil {
		return nil
	}
	o := t.info.Uses[id]
	if o == nil {
		o = t.info.Defs[id]
	}
	if v, ok := o.(*types.Var); ok && !v.IsField() && v.Pkg() != nil && v.Parent() != v.Pkg().Scope() {
		return o
	}
	return nil
}

func carriesState(tp types.Type) bool {
	if tp == nil {
		return false
	}
	switch tp.Underlying().(type) {
	case *types.Pointer, *types.Interface, *types.Map:
		return true
	}
	return false
}

// callEffects applies the receiver/argument taint rule to every call under n.
func (t *taint) callEffects(n ast.Node) {
	for _, c := range core.NodeCalls(n) {
		if c.Pos() >= t.limit {
			continue
		}
		if core.IsConversion(t.info, c) {
			continue
		}
		if id, ok := ast.Unparen(c.Fun).(*ast.Ident); ok {
			if _, isB := t.info.Uses[id].(*types.Builtin); isB {
				continue
			}
		}
		all := t.ctrlDeps()
		for _, a := range c.Args {
			all.addAll(t.exprDeps(a))
		}
		var recv ast.Expr
		if sel, ok := ast.Unparen(c.Fun).(*ast.SelectorExpr); ok {
			if s := t.info.Selections[sel]; s != nil && s.Kind() == types.MethodVal {
				recv = sel.X
				all.addAll(t.exprDeps(sel.X))
			}
		}
		fn := core.Callee(t.info, c)
		// flag declarations do not carry state into the flag set object
		if fn != nil && fn.Pkg() != nil && fn.Pkg().Path() == flagsPkg {
			continue
		}
		for _, a := range c.Args {
			x := ast.Unparen(a)
			if u, ok := x.(*ast.UnaryExpr); ok && u.Op == token.AND {
				if o := t.localVar(rootIdent(u.X)); o != nil {
					t.get(o).addAll(all)
				}
				continue
			}
			if id, ok := x.(*ast.Ident); ok {
				if o := t.localVar(id); o != nil && carriesState(o.Type()) {
					t.get(o).addAll(all)
				}
			}
		}
		if recv != nil {
			writes := false
			if tv, ok := t.info.Types[recv]; ok && tv.Type != nil {
				if _, isIface := tv.Type.Underlying().(*types.Interface); isIface {
					writes = true
				}
			}
			if fn != nil {
				if sig, ok := fn.Type().(*types.Signature); ok && sig.Recv() != nil {
					if _, isPtr := sig.Recv().Type().(*types.Pointer); isPtr {
						writes = true
					}
				}
			}
			if writes {
				if o := t.localVar(rootIdent(recv)); o != nil {
					t.get(o).addAll(all)
				}
			}
		}
	}
}

func (t *taint) assignTo(lhs ast.Expr, d set) {
	if id, ok := ast.Unparen(lhs).(*ast.Ident); ok && id.Name == "_" {
		return
	}
	if o := t.localVar(rootIdent(lhs)); o != nil {
		t.get(o).addAll(d)
	}
}

func (t *taint) stmts(list []ast.Stmt) {
	for _, s := range list {
		t.stmt(s)
	}
}

func (t *taint) stmt(s ast.Stmt) {
	if s == nil || s.Pos() >= t.limit {
		return
	}
	switch x := s.(type) {
	case *ast.BlockStmt:
		t.stmts(x.List)
	case *ast.AssignStmt:
		t.callEffects(x)
		if len(x.Lhs) == len(x.Rhs) {
			for i := range x.Lhs {
				d := t.exprDeps(x.Rhs[i])
				d.addAll(t.ctrlDeps())
				if x.Tok != token.ASSIGN && x.Tok != token.DEFINE {
					d.addAll(t.exprDeps(x.Lhs[i]))
				}
				t.assignTo(x.Lhs[i], d)
			}
		} else {
			d := t.ctrlDeps()
			for _, r := range x.Rhs {
				d.addAll(t.exprDeps(r))
			}
			for _, l := range x.Lhs {
				t.assignTo(l, d)
			}
		}
	case *ast.DeclStmt:
		if gd, ok := x.Decl.(*ast.GenDecl); ok {
			for _, sp := range gd.Specs {
				if vs, ok := sp.(*ast.ValueSpec); ok {
					t.callEffects(vs)
					d := t.ctrlDeps()
					for _, v := range vs.Values {
						d.addAll(t.exprDeps(v))
					}
					for _, n := range vs.Names {
						t.assignTo(n, d)
					}
				}
			}
		}
	case *ast.ExprStmt:
		t.callEffects(x)
	case *ast.DeferStmt:
		t.callEffects(x.Call)
	case *ast.GoStmt:
		t.callEffects(x.Call)
	case *ast.IfStmt:
		t.stmt(x.Init)
		t.callEffects(x.Cond)
		t.ctrl = append(t.ctrl, t.exprDeps(x.Cond))
		t.stmt(x.Body)
		t.stmt(x.Else)
		t.ctrl = t.ctrl[:len(t.ctrl)-1]
	case *ast.ForStmt:
		t.stmt(x.Init)
		for i := 0; i < 2; i++ {
			if x.Cond != nil {
				t.callEffects(x.Cond)
			}
			t.ctrl = append(t.ctrl, t.exprDeps(x.Cond))
			t.stmt(x.Body)
			t.stmt(x.Post)
			t.ctrl = t.ctrl[:len(t.ctrl)-1]
		}
	case *ast.RangeStmt:
		t.callEffects(x.X)
		for i := 0; i < 2; i++ {
			d := t.exprDeps(x.X)
			d.addAll(t.ctrlDeps())
			if x.Key != nil {
				t.assignTo(x.Key, d)
			}
			if x.Value != nil {
				t.assignTo(x.Value, d)
			}
			t.ctrl = append(t.ctrl, t.exprDeps(x.X))
			t.stmt(x.Body)
			t.ctrl = t.ctrl[:len(t.ctrl)-1]
		}
	case *ast.SwitchStmt:
		t.stmt(x.Init)
		if x.Tag != nil {
			t.callEffects(x.Tag)
		}
		t.ctrl = append(t.ctrl, t.exprDeps(x.Tag))
		for _, cc := range x.Body.List {
			cl := cc.(*ast.CaseClause)
			c := set{}
			for _, e := range cl.List {
				c.addAll(t.exprDeps(e))
			}
			t.ctrl = append(t.ctrl, c)
			t.stmts(cl.Body)
			t.ctrl = t.ctrl[:len(t.ctrl)-1]
		}
		t.ctrl = t.ctrl[:len(t.ctrl)-1]
	case *ast.TypeSwitchStmt:
		t.stmt(x.Init)
		t.stmt(x.Assign)
		t.ctrl = append(t.ctrl, t.exprDeps(x.Assign))
		for _, cc := range x.Body.List {
			t.stmts(cc.(*ast.CaseClause).Body)
		}
		t.ctrl = t.ctrl[:len(t.ctrl)-1]
	case *ast.LabeledStmt:
		t.stmt(x.Stmt)
	case *ast.IncDecStmt, *ast.ReturnStmt, *ast.BranchStmt, *ast.EmptyStmt:
	default:
		t.callEffects(x)
	}
}

type command struct {
	fd      *ast.FuncDecl
	name    string
	flags   []*flagVar
	byObj   map[types.Object]*flagVar
	try     *ast.CallExpr
	guard   *ast.IfStmt
	newDel  *ast.CallExpr
	dObj    types.Object
	ctxObj  types.Object
	payload *ast.CompositeLit
}

func flagName(info *types.Info, c *ast.CallExpr, fn *types.Func) string {
	idx := 0
	if strings.Contains(core.FuncID(fn), ".Optional.") {
		idx = 1
	}
	if idx < len(c.Args) {
		if s, ok := core.ConstString(info, c.Args[idx]); ok {
			return s
		}
	}
	return "?"
}

func enclosing(root ast.Node, target ast.Node) []ast.Node {
	var path, best []ast.Node
	ast.Inspect(root, func(n ast.Node) bool {
		if n == nil {
			path = path[:len(path)-1]
			return true
		}
		path = append(path, n)
		if n == target {
			best = append([]ast.Node(nil), path...)
		}
		return true
	})
	return best
}

// Commands finds every function of package main that calls TryCache.
// textEncoders / payloadEncoders: functions of package main recognised by what
// their body does, not by their name: `return hex|base64.EncodeToString(param)`
// and "json.Marshal of the single parameter".
var textEncoders, payloadEncoders map[string]bool

func deriveEncoders(p *core.Prog) {
	textEncoders, payloadEncoders = map[string]bool{}, map[string]bool{}
	info := p.Info(core.PkgMain)
	for _, fd := range p.FuncDecls(core.PkgMain) {
		if fd.Body == nil || fd.Recv != nil || fd.Type.Params.NumFields() != 1 || len(fd.Type.Params.List[0].Names) != 1 {
			continue
		}
		param := info.Defs[fd.Type.Params.List[0].Names[0]]
		id := core.PkgMain + "." + fd.Name.Name
		if len(fd.Body.List) == 1 {
			if ret, ok := fd.Body.List[0].(*ast.ReturnStmt); ok && len(ret.Results) == 1 {
				if c, ok := ast.Unparen(ret.Results[0]).(*ast.CallExpr); ok && len(c.Args) == 1 && core.ObjOf(info, c.Args[0]) == param &&
					core.IsCallTo(info, c, "encoding/hex.EncodeToString", "encoding/base64.Encoding.EncodeToString") {
					textEncoders[id] = true
				}
			}
		}
		for _, c := range core.Calls(fd.Body) {
			if core.IsCallTo(info, c, "encoding/json.Marshal") && len(c.Args) == 1 && core.ObjOf(info, c.Args[0]) == param {
				payloadEncoders[id] = true
			}
		}
	}
}

func commands(p *core.Prog) []*command {
	deriveEncoders(p)
	info := p.Info(core.PkgMain)
	var out []*command
	for _, fd := range p.FuncDecls(core.PkgMain) {
		if fd.Body == nil || fd.Recv != nil {
			continue
		}
		var try *ast.CallExpr
		for _, c := range core.Calls(fd.Body) {
			if core.IsCallTo(info, c, idTryCache) {
				try = c
			}
		}
		if try == nil {
			continue
		}
		cm := &command{fd: fd, name: "main." + fd.Name.Name, try: try, byObj: map[types.Object]*flagVar{}}
		if len(fd.Type.Params.List) > 0 && len(fd.Type.Params.List[0].Names) > 0 {
			cm.ctxObj = info.Defs[fd.Type.Params.List[0].Names[0]]
		}
		asg := core.Assigns(info, fd.Body)
		var objs []types.Object
		for o := range asg {
			objs = append(objs, o)
		}
		sort.Slice(objs, func(i, j int) bool { return objs[i].Pos() < objs[j].Pos() })
		for _, o := range objs {
			for _, a := range asg[o] {
				var call *ast.CallExpr
				if a.RHS != nil {
					call, _ = ast.Unparen(a.RHS).(*ast.CallExpr)
				} else {
					call = a.Call
				}
				if call == nil {
					continue
				}
				fn := core.Callee(info, call)
				if fn == nil {
					continue
				}
				id := core.FuncID(fn)
				if (strings.HasPrefix(id, flagsPkg+".Positional.") || strings.HasPrefix(id, flagsPkg+".Optional.")) && a.RHS != nil {
					if _, isPtr := fn.Type().(*types.Signature).Results().At(0).Type().(*types.Pointer); isPtr {
						if cm.byObj[o] == nil {
							fv := &flagVar{obj: o, name: flagName(info, call, fn), pos: call.Pos()}
							cm.flags = append(cm.flags, fv)
							cm.byObj[o] = fv
						}
					}
				}
				if id == idNewDelegate && a.Idx == 0 && a.RHS == nil {
					cm.newDel = call
					cm.dObj = o
				}
			}
		}
		// guard: the innermost if statement enclosing the TryCache call
		for _, n := range enclosing(fd.Body, try) {
			if is, ok := n.(*ast.IfStmt); ok && is.Body.Pos() <= try.Pos() && try.End() <= is.Body.End() {
				cm.guard = is
			}
		}
		// payload literal
		if len(try.Args) == 2 {
			e := core.Origin(info, asg, try.Args[1])
			if ec, ok := e.(*ast.CallExpr); ok && payloadEncoders[core.FuncID(core.Callee(info, ec))] && len(ec.Args) == 1 {
				if cl, ok := core.Origin(info, asg, ec.Args[0]).(*ast.CompositeLit); ok {
					cm.payload = cl
				}
			}
		}
		out = append(out, cm)
	}
	sort.Slice(out, func(i, j int) bool { return out[i].name < out[j].name })
	return out
}

func within(n ast.Node, pos token.Pos) bool { return n != nil && n.Pos() <= pos && pos < n.End() }

// Keys decides KEY-1..KEY-4 for every cached command.
func Keys(p *core.Prog, r *core.Report) {
	r.Rule("KEY-1", "every option of a cached command that is read outside its exempt role (no-cache guard, primary input path, output path) is in the dependence set of the payload handed to TryCache", 60)
	r.Rule("KEY-2", "the payload depends on the command name (ctx): commands share one cache directory", 19)
	r.Rule("KEY-3", "a secondary input file (a flag that reaches os.Open) enters the payload only as a digest (hash.Hash.Sum) of its content, never as its path", 4)
	r.Rule("KEY-4", "between the creation of the delegate and TryCache the delegate is not read from or written to (TryCache hashes the input from its current offset)", 19)
	r.Rule("CMDS", "every function of cmd/gts that calls (*ioDelegate).TryCache is analysed", 19)
	info := p.Info(core.PkgMain)
	cmds := commands(p)
	var flagTotal int
	perCmd := map[string][]string{}
	for _, cm := range cmds {
		r.Fn(cm.name)
		pos := p.Pos(cm.fd.Pos())
		if cm.payload == nil || cm.newDel == nil || cm.dObj == nil {
			r.Und("CMDS", cm.name, pos, "cannot resolve the payload literal / delegate of this command (payload must be encodePayload([]tuple{...}) reaching TryCache's 2nd argument)")
			continue
		}
		r.Ok("CMDS", cm.name, pos, fmt.Sprintf("%d options, payload of %d tuples", len(cm.flags), len(cm.payload.Elts)))
		// dependence sets at the payload
		t := &taint{info: info, deps: map[types.Object]set{}, src: map[types.Object]bool{}, limit: cm.payload.Pos()}
		for _, f := range cm.flags {
			t.src[f.obj] = true
		}
		if cm.ctxObj != nil {
			t.src[cm.ctxObj] = true
		}
		t.stmts(cm.fd.Body.List)
		t.limit = token.Pos(1 << 60)
		pay := t.exprDeps(cm.payload)

		// exempt roles
		var guardCond ast.Expr
		if cm.guard != nil {
			guardCond = cm.guard.Cond
		}
		var in0, out1 ast.Expr
		if len(cm.newDel.Args) == 2 {
			in0, out1 = cm.newDel.Args[0], cm.newDel.Args[1]
		}
		asg := core.Assigns(info, cm.fd.Body)
		// classify uses
		type use struct{ genuine, any int }
		uses := map[types.Object]*use{}
		for _, f := range cm.flags {
			uses[f.obj] = &use{}
		}
		nocache := types.Object(nil)
		if u, ok := ast.Unparen(guardCond).(*ast.UnaryExpr); ok && u.Op == token.NOT {
			if st, ok := ast.Unparen(u.X).(*ast.StarExpr); ok {
				nocache = core.ObjOf(info, st.X)
			}
		}
		ast.Inspect(cm.fd.Body, func(n ast.Node) bool {
			id, ok := n.(*ast.Ident)
			if !ok {
				return true
			}
			o := info.Uses[id]
			u := uses[o]
			if u == nil {
				return true
			}
			// writes: `x = ...`, `*x = ...` on the LHS
			for _, a := range asg[o] {
				if as, ok := a.Node.(*ast.AssignStmt); ok {
					for _, l := range as.Lhs {
						if within(l, id.Pos()) {
							if _, isStar := ast.Unparen(l).(*ast.StarExpr); !isStar {
								return true
							}
						}
					}
				}
			}
			if star := derefWrite(cm.fd.Body, id); star {
				return true
			}
			if blankAssigned(cm.fd.Body, id) {
				return true // `_ = x` keeps the compiler quiet; it is not a read that reaches the output
			}
			u.any++
			switch {
			case o == nocache && within(guardCond, id.Pos()):
			case within(in0, id.Pos()):
			case within(out1, id.Pos()):
			default:
				u.genuine++
			}
			return true
		})
		var names []string
		for _, f := range cm.flags {
			flagTotal++
			names = append(names, f.name)
			key := fmt.Sprintf("%s|flag=%s", cm.name, f.name)
			u := uses[f.obj]
			switch {
			case u.any == 0:
				r.Note("KEY-1", key, p.Pos(f.pos), "option declared but never read")
			case u.genuine == 0:
				role := "output path"
				if f.obj == nocache {
					role = "no-cache guard"
				} else if core.UsesObj(info, in0, f.obj) {
					role = "primary input (its content is the root digest)"
				}
				r.Ok("KEY-1", key, p.Pos(f.pos), "only used in its exempt role: "+role)
			case pay[f.obj]:
				r.Ok("KEY-1", key, p.Pos(f.pos), "read by the command and part of the payload's dependence set")
			default:
				r.Bad("KEY-1", key, p.Pos(f.pos), fmt.Sprintf("option %q of %s is read by the command but no payload tuple depends on it: two runs that differ only in this option share one cache entry", f.name, cm.name))
			}
		}
		perCmd[cm.name] = names
		// KEY-2
		if cm.ctxObj != nil && pay[cm.ctxObj] {
			r.Ok("KEY-2", cm.name, p.Pos(cm.payload.Pos()), "payload depends on the command context (ctx.Name)")
		} else {
			r.Bad("KEY-2", cm.name, p.Pos(cm.payload.Pos()), "payload does not depend on the command name: another command with the same options replays this command's output")
		}
		// KEY-3
		for _, c := range core.Calls(cm.fd.Body) {
			if !core.IsCallTo(info, c, "os.Open") || len(c.Args) != 1 {
				continue
			}
			for _, f := range cm.flags {
				if !core.UsesObj(info, c.Args[0], f.obj) {
					continue
				}
				key := fmt.Sprintf("%s|input=%s", cm.name, f.name)
				okDigest, badPath := false, token.NoPos
				for _, el := range cm.payload.Elts {
					tl, ok := el.(*ast.CompositeLit)
					if !ok || len(tl.Elts) != 2 {
						continue
					}
					v := tl.Elts[1]
					if !t.exprDeps(v)[f.obj] {
						continue
					}
					if isDigest(info, asg, v) {
						okDigest = true
					} else {
						badPath = v.Pos()
					}
				}
				switch {
				case badPath != token.NoPos:
					r.Bad("KEY-3", key, p.Pos(badPath), fmt.Sprintf("payload tuple depends on secondary input %q other than through a content digest: the key follows the path, not the content, so editing the file replays a stale entry", f.name))
				case okDigest:
					r.Ok("KEY-3", key, p.Pos(c.Pos()), "secondary input enters the payload as hash.Hash.Sum of its content")
				default:
					r.Bad("KEY-3", key, p.Pos(c.Pos()), fmt.Sprintf("secondary input %q is opened but no payload tuple carries its digest", f.name))
				}
			}
		}
		// KEY-4
		bad := token.NoPos
		ast.Inspect(cm.fd.Body, func(n ast.Node) bool {
			id, ok := n.(*ast.Ident)
			if !ok || info.Uses[id] != cm.dObj {
				return true
			}
			if id.Pos() <= cm.newDel.End() || id.Pos() >= cm.try.Pos() {
				return true
			}
			// allowed: defer d.Close()
			for _, m := range enclosing(cm.fd.Body, id) {
				if ds, ok := m.(*ast.DeferStmt); ok {
					if sel, ok := ast.Unparen(ds.Call.Fun).(*ast.SelectorExpr); ok && sel.Sel.Name == "Close" && ast.Unparen(sel.X) == ast.Expr(id) {
						return true
					}
				}
			}
			bad = id.Pos()
			return true
		})
		if bad == token.NoPos {
			r.Ok("KEY-4", cm.name, p.Pos(cm.try.Pos()), "delegate untouched between creation and TryCache")
		} else {
			r.Bad("KEY-4", cm.name, p.Pos(bad), "the delegate is used before TryCache: bytes consumed or written here are outside the digest / the replay")
		}
	}
	r.Extra["commands"] = len(cmds)
	r.Extra["flags_total"] = flagTotal
	r.Extra["flags_by_command"] = perCmd
}

// derefWrite reports whether id occurs as `*id` on the left of an assignment.
func derefWrite(body ast.Node, id *ast.Ident) bool {
	found := false
	ast.Inspect(body, func(n ast.Node) bool {
		as, ok := n.(*ast.AssignStmt)
		if !ok {
			return true
		}
		for _, l := range as.Lhs {
			if st, ok := ast.Unparen(l).(*ast.StarExpr); ok && ast.Unparen(st.X) == ast.Expr(id) && as.Tok == token.ASSIGN {
				// `*x = append(*x, ...)` also reads x on the right; that read is a separate identifier
				found = true
			}
		}
		return !found
	})
	return found
}

// isDigest: e is (a transparent encoding of) the result of hash.Hash.Sum.
func isDigest(info *types.Info, asg map[types.Object][]core.Assign, e ast.Expr) bool {
	for i := 0; i < 8; i++ {
		e = core.Origin(info, asg, e)
		c, ok := e.(*ast.CallExpr)
		if !ok {
			return false
		}
		if core.IsConversion(info, c) && len(c.Args) == 1 {
			e = c.Args[0]
			continue
		}
		id := core.FuncID(core.Callee(info, c))
		switch id {
		case "hash.Hash.Sum":
			return true
		case "encoding/hex.EncodeToString", "encoding/base64.Encoding.EncodeToString":
			if len(c.Args) == 1 {
				e = c.Args[0]
				continue
			}
		}
		if textEncoders[id] && len(c.Args) == 1 {
			e = c.Args[0]
			continue
		}
		return false
	}
	return false
}

// blankAssigned reports whether id is the whole right-hand side of `_ = id`.
func blankAssigned(body ast.Node, id *ast.Ident) bool {
	found := false
	ast.Inspect(body, func(n ast.Node) bool {
		as, ok := n.(*ast.AssignStmt)
		if !ok || len(as.Lhs) != 1 || len(as.Rhs) != 1 {
			return true
		}
		if l, ok := as.Lhs[0].(*ast.Ident); ok && l.Name == "_" && ast.Unparen(as.Rhs[0]) == ast.Expr(id) {
			found = true
		}
		return !found
	})
	return found
}

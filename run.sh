#!/bin/bash
# Entry point used by MANIFEST.json.
#   ./run.sh Cxx quick|thorough      decide one property on /repo's current working tree
#   ./run.sh replay <file>           re-decide the single obligation recorded in a replay file
# Nothing is cached between runs except the Go build cache; /repo is re-loaded every time.
cd "$(dirname "$0")" || exit 2
export GOFLAGS=-mod=mod GOPROXY=off GOSUMDB=off GOTOOLCHAIN=local
unset GOWORK
REPO="${VERIF_REPO:-/repo}"
mkdir -p bin evidence
( cd checker && go build -o ../bin/gtsverif . ) || { echo "checker build failed"; exit 2; }
if [ "$1" = replay ]; then
  exec bin/gtsverif -repo "$REPO" -verif "$PWD" -replay "$2"
fi
exec bin/gtsverif -repo "$REPO" -verif "$PWD" -property "$1" -tier "${2:-quick}"
